# Per-property configuration of ./check. Case counts are per process (thorough: per shard).
PROPS = {}

def prop(pid, **kw):
    PROPS[pid] = kw

prop("C01",
     level="exploration",
     tests=[dict(name="TestC01", quick=1500, thorough=12000)],
     rule="rapid-generated KV histories (1-40 steps: write transactions of 1-5 Put/PutWithTimestamp/Delete over 2-3 buckets and a 2-7 key universe, reopen steps; both RAM index modes x RWMode x loading mode x sync x segment size 120..8192) checked after every step against an ordered-map-with-TTL model by a systematic read battery (Get of every key, GetAll, PrefixScan of every key prefix, RangeScan, drawn RangeScan/PrefixSearchScan). A case is non-trivial when at least one segment rotation happened and the history deleted a previously written key or left an expired key next to a live one in the same bucket; distinct = distinct case JSON (hashed).",
     assumptions=["expiry instants are at least 10^6 s away from the wall clock (valid until 2033)",
                  "the reference model (model_test.go) is correct"])
