# Per-property configuration of ./check. Case counts are per process (thorough: per shard).
PROPS = {}

def prop(pid, **kw):
    PROPS[pid] = kw

prop("C01",
     level="exploration",
     tests=[dict(name="TestC01", quick=1500, thorough=4000)],
     rule="rapid-generated KV histories (1-40 steps: write transactions of 1-5 Put/PutWithTimestamp/Delete over 2-3 buckets and a drawn key universe (70% 2-7 keys; 25% 'wide' 8-30 keys and 5% 'bulk' 40-90 keys in one bucket, so that the order-8 B+ trees have several leaves and levels and range bounds fall between leaves; transactions of up to 8/20 calls there), reopen steps, Merge steps (4% of steps; Merge must not change what the model says); values of 0-24 text bytes or 20-60 binary bytes with runs of zeros; about a third of the cases run under the build-tagged VIRTUAL CLOCK (the expiry test sees a time the case controls): explicitly stamped puts expire -2..+9 s around the virtual time and clock steps move it onto, one second before and one second after expiry instants that lie ahead, so reads happen exactly at now = timestamp+TTL and at now = timestamp+TTL-1 and pairs expire between two reads with no write in between; both RAM index modes x RWMode x loading mode x sync x segment size 120..8192) checked after every step against an ordered-map-with-TTL model by a systematic read battery (Get of every key, GetAll, PrefixScan of every key prefix, RangeScan, drawn RangeScan/PrefixSearchScan). A case is non-trivial when at least one segment rotation happened and the history deleted a previously written key or left an expired key next to a live one in the same bucket; distinct = distinct case JSON (hashed). One case in eight is a TREE-SHAPE case: 20-70 keys of one bucket are inserted in a structured order (jump-and-backfill from one or both ends of the sorted universe, or new extreme keys alternating with blocks of refills next to an anchor key, with a rhythm of 3 refills that fills a freshly split 7-key leaf exactly), then a short ordinary history follows; the battery runs after every step.",
     assumptions=["without the virtual clock expiry instants are at least 10^6 s away from the wall clock (valid until 2033); with it only the expiry test (record.go IsExpired) reads the virtual time, records stamped by Put carry the wall clock and never expire in such a case",
                  "the reference model (model_test.go) is correct"])

prop("C05",
     level="exploration", engine="E1+E2",
     tests=[dict(name="TestC05Enum", quick=1, thorough=1, shardable=False),
            dict(name="TestC05", quick=1200, thorough=4000)],
     rule="(E2) exhaustive: every ds/list state of <=4 (thorough: <=5) elements over the values {\"\",a,|,a|b} x every operation instance (push/pop/peek/size, LRange/LTrim with both bounds in -n-2..n+1, LRem/LSet with every count/index in that range and every value), result AND resulting list compared with the Redis-style model through tolerant outcome sets; (E1) rapid histories of 1-60 single-call transactions on 1-3 list keys in 1-2 buckets with reopen steps, every call compared with the model and LRange(0,-1)/LSize/LPeek/RPeek re-read after every step. Non-trivial: applied to a non-empty list with a negative or out-of-range index/count or a value containing '|'. (E2) also: LRange/LTrim/LSet/LRem on the exported list type with indexes and counts math.MinInt64, MinInt64+1, MaxInt64, MinInt32, MaxInt32 on every state.",
     assumptions=["out-of-range bounds may be clamped (Redis) or reported as an error with the list unchanged; both are accepted, panics are not",
                  "list keys do not contain '|' (the API rejects them)"],
     technique="small-scope exhaustive enumeration + model-based property testing (rapid)")

prop("C06",
     level="exploration", engine="E1+E2",
     tests=[dict(name="TestC06Enum", quick=1, thorough=1, shardable=False),
            dict(name="TestC06", quick=1200, thorough=4000)],
     rule="(E2) exhaustive: two set keys, each absent or holding any subset of {\"\",a,b} (81 states) x every ds/set operation instance (SAdd/SRem with one or two items, SPop, SMove between every key pair, SIsMember, SAreMembers, SMembers, SCard, SHasKey, SDiff, SUnion, SInter), result and resulting sets compared with the set model; (E1) rapid histories of 1-50 single-call transactions over 1-3 keys in 1-2 buckets (all Tx set APIs incl. SMoveByOneBucket/TwoBuckets, SPop validity predicate) with reopen steps, all sets re-read after every step and after every reopen. Non-trivial: history with a reopen after an SMove/SPop, or an empty or repeated member.",
     assumptions=["SMove of an item that is not in the source: no-op/false, error, or the current behaviour (added to the destination) are all accepted (README is silent)",
                  "known finding c06-empty-member-unremovable is applied as a named model deviation"],
     technique="small-scope exhaustive enumeration + model-based property testing (rapid)")

prop("C07",
     level="exploration", engine="E1+E2",
     tests=[dict(name="TestC07Enum", quick=2, thorough=4, timeout_quick=900),
            dict(name="TestC07", quick=1500, thorough=4000)],
     rule="(E2) exhaustive: every sorted set over member keys {\"\",a,b,c} each absent or scored in {-1,0,1,2} (625 states) x several skiplist layouts (math/rand seeds, insertion orders, re-scored members) x every operation instance (Put with every key/score, Remove, pops, peeks, GetByScoreRange with every bound pair in -2..3 x exclusive flags x limits 0..2 and nil options, GetByRankRange with every rank pair in -6..6 with and without removal, FindRank/FindRevRank/GetByKey); result, resulting membership, dict/rank-walk/size agreement and FindRank/GetByRank of every member checked against a (score,key)-ordered model; (E1) rapid histories of 1-50 single-call transactions through every Tx sorted-set API with reopen steps. Non-trivial: at least two members share a score, or the empty key is a member, or a reversed range lies below every score. Scores of the rapid histories include values that need more than six decimals (1/3, 1e-7, -1e-7, 0.3333331 vs 0.3333334, 1234567.1234567).",
     assumptions=["rank 0 and ranks beyond the size are unspecified: queries must still return only current members in rank order, mutating calls use in-domain ranks",
                  "known finding c07-zrem-empty-key is applied as a named model deviation"],
     technique="small-scope exhaustive enumeration + model-based property testing (rapid)")

prop("C02",
     level="exploration",
     tests=[dict(name="TestC02", quick=400, thorough=1200)],
     rule="rapid-generated single-bucket KV histories in HintBPTSparseIdxMode (1-25 steps, up to 60 with 1 KiB segments; a third of the cases under the virtual clock with clock steps onto / around expiry instants as in C01; write transactions of 1-4 (wide key universes of 8-30 keys, 25% of cases: 1-8) Put/PutWithTimestamp/Delete incl. exact-fill records; reopen 20% of steps; segment sizes 120/200/333 so most keys live in sealed segments; FileIO/MMap x loading mode x sync), checked after every step against the ordered-map-with-TTL model: Get of every key, GetAll, PrefixScan(p,0,ScanNoLimit) of every key prefix, RangeScan over drawn straddling bounds, including reads before the first write. Non-trivial: >=1 rotation and a deleted/expired key next to live keys. One case in twelve is a tree-shape case (C01) in one 8 KiB segment; bucket names include dotted ones (b.k, c.meta: the name travels through a file name).",
     assumptions=["single bucket, so bucket+key concatenations are unambiguous (the ambiguous case is C04)"])

prop("C04",
     level="exploration",
     tests=[dict(name="TestC04", quick=1500, thorough=4000)],
     rule="rapid-generated histories over 2-3 buckets drawn from adversarial names {b, bb, b|, \"\", ab, a} (prefixes of each other, empty), KV in all three index modes, lists/sets/sorted sets in KeyVal mode, one call per transaction for lists/sets/sorted sets, and a third of the steps one transaction of 2-5 key/value writes spread over the buckets (so one transaction writes pairs whose bucket+key concatenations coincide), reopen steps. Oracle A (metamorphic): after every write transaction the full observation of every (structure,bucket) it does not name is unchanged; oracle B: the reference model with per-bucket maps. Non-trivial: >=2 buckets where one name is a prefix of another. Bucket names also include dotted ones (a.b, b.meta).",
     assumptions=["known finding c04-sparse-bucket-key-concatenation: sparse-mode histories whose bucket names are prefix-related run in KeyOnly mode instead (counted under excluded)"],
     technique="metamorphic + model-based property testing (rapid)")

prop("C08",
     level="exploration",
     tests=[dict(name="TestC08", quick=1200, thorough=3000)],
     rule="rapid-generated histories mixing KV (all index modes) and list/set/sorted-set calls (KeyVal mode) in transactions of 1-4 calls (reads and writes, so calls that are valid when made but no-ops at commit occur: second pop of a one-element list, LSet/LTrim/LRem after a pop, SRem of a missing key), exact-fill records, Close/Open at drawn points and at the end. Also generated: two-step patterns on a fresh list (push n; then one transaction that pops p elements and calls LSet/LTrim/LRem/pop with arguments valid when called but referring to elements that are gone when applied). Oracle (metamorphic, model-free, STRICT: error, empty and zero results are distinct; includes SHasKey and the expiry instant of every live pair): the full observation of every bucket and structure just before Close equals the one just after Open. Non-trivial: a reopen preceded by a committed transaction that touches >=2 structures, contains SMove/SPop, or mutates the same list twice. A fifth of the cases run under the virtual clock (C01): pairs expire between the writes and the reopen.",
     assumptions=["histories in which a call panics are skipped (C20's domain) and counted"],
     technique="metamorphic property testing (rapid)")

prop("C19",
     level="exploration",
     tests=[dict(name="TestC19", quick=350, thorough=800)],
     rule="each rapid-generated mixed history (KV + list/set/sorted-set calls, reads inside transactions, reopen steps, exact-fill records, segment sizes 120-1024) is executed under all 8 combinations RWMode x StartFileLoadingMode x SyncEnable in KeyVal mode, and its KV part under KeyVal (reference), KeyOnly x 8 and sparse x 8 combinations; per-call results, commit outcomes and the observation after every step are compared across configurations (differential). Non-trivial: history with >=1 rotation and >=1 reopen. A fifth of the histories run under the virtual clock (C01), the same instants in every configuration.",
     assumptions=["SPop is not generated (it may return any member, so two runs may legitimately diverge)",
                  "known finding c04-sparse-bucket-key-concatenation: sparse configurations are skipped for histories with prefix-related bucket names (counted)"],
     technique="differential property testing across option sets (rapid)")

CRASH_ASSUMPTIONS = [
    "process-crash model: every write and mmap store that completed before the crash point is in the file; the in-flight write is applied as one of the listed torn prefixes",
    "file mutations are observed through the build-tagged hook; after every recorded workload the trace is replayed into an empty directory and compared byte-for-byte with the real directory (hook-coverage self-check, exit 2 on mismatch)",
    "a restarted process does not share a millisecond with its predecessor (the harness waits 2 ms before a simulated restart)",
    "known finding sparse-index-files-not-crash-consistent: sparse-mode workloads are run in KeyOnly mode for crash images (counted under excluded)",
]

prop("C09",
     level="fault_enumeration", engine="E1+E3",
     tests=[dict(name="TestC09", quick=250, thorough=700)],
     rule="rapid-generated histories (KV in all index modes, lists/sets/sorted sets in KeyVal mode, reads inside transactions so commit-time no-ops occur, reads of a never-written bucket through every read API, exact-fill records, Merge calls, reopen steps, every RWMode/StartFileLoadingMode/sync/segment size 120..1024). Oracle: (i) Open with the same options succeeds after the clean Close; (ii) for RAM index modes every crash image of the recorded file-mutation trace (every event position x torn prefixes of every write at each record-field boundary) is materialised and Open must succeed on it and a full read must not panic; every 3rd torn image and every 4th other image is then CONTINUED: one more put (1 byte / 60% of a segment / a whole segment, so the log rotates past whatever the crash left at the tail), Close, Open again - which must succeed and show the recovered contents plus the new pair. Non-trivial: a workload with more than 3 distinct crash images; inner_enumerations counts the images opened. In the RAM index modes 10% of the multi-call transactions get an injected write error inside Commit (failed calls are part of the property's histories); every database directory of every check carries glob metacharacters and a space in its name.",
     assumptions=CRASH_ASSUMPTIONS,
     technique="record-and-replay crash-point enumeration over rapid-generated workloads")

prop("C10",
     level="fault_enumeration", engine="E3",
     tests=[dict(name="TestC10", quick=400, thorough=1000)],
     rule="rapid-generated workloads of 2-10 steps (write transactions of 1-5 calls over KV in RAM index modes and list/set/sorted-set calls in KeyVal mode, explicit rollbacks, commits that fail because of an oversized entry (a value of SegmentSize+1 bytes, or an entry that is exactly 1-3 bytes too large) at a drawn position, reopen steps; FileIO/MMap x sync x segment size). The file-mutation trace is recorded with commit markers and the observation O_i after each returned commit; every crash image (every event position x torn prefixes at every record-field boundary, deduplicated by content) is opened and its full observation must equal O_c (c = commits returned before the crash point) or O_c+1 when a transaction that later committed was in flight; a third of the torn images and a quarter of the others are continued after recovery (one more put of 1 byte / 60% / 100% of a segment, Close, Open: contents unchanged, new pair present). Oversized entries are Seg+1-byte values or entries exactly 1-2 bytes too large. Non-trivial: a crash point strictly inside the Commit of a multi-record transaction or a torn prefix ending inside the 42-byte header.",
     assumptions=CRASH_ASSUMPTIONS,
     technique="record-and-replay crash-point enumeration with a recorded-observation oracle")

prop("C16",
     level="fault_enumeration", engine="E3",
     tests=[dict(name="TestC16", quick=500, thorough=3000)],
     rule="rapid-generated pre-merge histories (KV with TTL/deletes and sets; 2-12 steps; segment sizes 120-333 so several files take part; RAM index modes) with Merge calls at drawn points (22% of steps); every crash image at every file-mutation point between Merge's start and return (incl. torn prefixes of the rewrite transactions' records and points between a rewrite and the removal of the old segment) is opened and its observation must equal the observation before Merge. Non-trivial: workload with more than 2 crash points inside Merge.",
     assumptions=CRASH_ASSUMPTIONS + ["known finding c16-merge-crash-list-zset: list and sorted-set calls are dropped from the workloads (counted under excluded)"],
     technique="record-and-replay crash-point enumeration inside Merge")

prop("C15",
     level="exploration",
     tests=[dict(name="TestC15", quick=800, thorough=4000)],
     rule="rapid-generated histories (KV with TTL/deletes/overwrites, sets, sorted sets, rollbacks, and commits that fail with an injected write error at record 0-3 (both twins get the same fault; the records written before it stay on disk, uncommitted); transactions of 1-4 (wide key universes: 1-8) calls; both RAM index modes; segment sizes 120-333) with Merge at drawn points (18% of steps, so twice in a row and failing '<2 files' merges occur), more writes afterwards and reopen steps incl. a final one. Oracle (differential twin): database A runs the history, database B the same history without the Merge calls; per-call results and the full observation (incl. the expiry instant of every live pair) must be identical after every step. Non-trivial: >=1 successful Merge over >=2 segments in a history that deleted, overwrote, expired or rolled back something. A quarter of the cases run under the virtual clock (C01) in both twins: pairs expire between the writes, the Merge calls and the comparisons.",
     assumptions=["SPop is not generated (non-deterministic by specification)",
                  "known finding c15-merge-list-duplication: list calls are dropped from the histories (counted under excluded)"],
     technique="differential twin-database property testing (rapid)")

prop("C11",
     level="fault_enumeration", engine="E3",
     tests=[dict(name="TestC11", quick=500, thorough=3000)],
     rule="as C10 with SyncEnable=true and with Merge calls (10% of steps, RAM index modes; most fail with 'at least 2 files', some rewrite segments), but every crash point is expanded into power-loss images: each file reverts to its content at its last sync event (absent if never synced) and the truncations, writes and removals since then are volatile - every subset of them is applied when there are <=3 (otherwise none/all/each single one kept or dropped/every prefix), each also with the last kept write torn in half; the image is opened and must show O_c or O_c+1. Non-trivial: workload with at least one position that has volatile operations and more than 3 distinct images.",
     assumptions=CRASH_ASSUMPTIONS + ["power-loss model: a sync of a file makes its whole content, its length and its directory entry durable; directories are durable when created",
                                      "removals reach the disk in the order they were issued (journalled directory updates): the undone removals are a suffix"],
     technique="record-and-replay power-loss image enumeration with a recorded-observation oracle")

prop("C12",
     level="fault_enumeration", engine="E1+E3",
     tests=[dict(name="TestC12", quick=400, thorough=1500)],
     rule="rapid-generated mixed histories (<=8 steps, KV in all index modes, structures in KeyVal mode) with one 'bad' transaction of 1-4 state-changing calls inserted at a drawn position, of a drawn kind: function returns an error after k calls (db.Update), explicit Rollback, an oversized entry at a drawn position, an injected write error at EVERY write event of its Commit in turn (each with 0, 7, 43 and all-but-the-last byte written before the error), an injected sync error at every sync event in turn, a read-only transaction calling every mutating API, or calls of every mutating API on the transaction after Commit/Rollback. 8% of the other steps are Merge calls on every database (what the bad transaction left in the segments must not be brought to life). The bad transaction prefers the keys the history uses and may contain SPop (except for sync faults); after a failed db.Update/db.View the database lock is probed (a write transaction must be able to begin: otherwise DEADLOCK). The bad transaction runs on the main database only; a twin runs the history without it; per-call results and the full observation of main and twin must agree after every step, in the process and after reopen; mutating calls in read-only/finished transactions must return errors; after a sync error the state must equal the twin without the transaction or a second twin that committed it. Non-trivial: the bad transaction contains at least one call that would change the observation (and, for fault kinds, at least one fault plan fired). After a transaction with an injected write or sync error half of the cases continue with an ECHO transaction: a prefix of the failed transaction's calls with records of exactly the same sizes but other keys and values, so the new records end on record boundaries of the failed ones.",
     assumptions=["a failed write leaves the record physically incomplete (if the omitted suffix is all zero bytes the torn prefix is shortened, because the zero-filled segment would already hold the complete record)",
                  "known finding sparse-index-files-not-crash-consistent: I/O-fault cases run in KeyOnly instead of sparse mode (counted under excluded)",
                  "known finding c15-merge-list-duplication: histories with Merge steps run without their list calls (counted under excluded)"],
     technique="twin-database differential testing with exhaustive fault-point enumeration per generated commit")

prop("C13",
     level="exploration",
     tests=[dict(name="TestC13", quick=4000, thorough=20000)],
     rule="rapid-generated histories of 1-12 write transactions of 2-6 calls each on one structure (KV get/put/del/getall, every list, set and sorted-set API incl. pops/peeks/ranges) over 1-2 keys, so calls that read or pop what the same transaction already modified are the norm. Oracle: the sequential reference model - every in-transaction return value and the full re-read after Commit must be explained by running the calls one after another on the state at Begin; under the recorded finding c13-snapshot-reads a second, deviant explanation is accepted and counted (return values judged on the state at Begin; the state after Commit must be reachable by applying the logged calls in order, a call whose precondition does not hold on the running state being a no-op; candidate states are enumerated). A case explained by neither is a violation. Non-trivial: a transaction with a read/pop of a (structure,bucket,key) that an earlier call of the same transaction modified.",
     assumptions=["known finding c13-snapshot-reads is applied as a named model deviation; deviations_applied counts the transactions that needed it"],
     technique="model-based property testing (rapid) with a strict and a deviant reference model")

prop("C03",
     level="exploration",
     tests=[dict(name="TestC03", quick=700, thorough=2000)],
     rule="rapid-generated KV histories (puts, deletes, expired and live TTL puts over 3-8 keys (10% of cases 9-18 keys, so pages cross B+ tree leaves) on the alphabet {a,b,c}, reopen steps, Merge steps in the RAM index modes, all three index modes; a third of the cases under the virtual clock (C01), so keys expire between the writes and the paging and some pages are read exactly at an expiry instant); then for every prefix of every written key ALL pages are enumerated: PrefixScan(prefix, offset, limit) for offset 0..n+1 and limit in {ScanNoLimit} U 1..n+1 (n = keys ever written under the prefix) and PrefixSearchScan(prefix, regexp, 0, limit) for every such limit; each page must equal live_prefixed[offset:offset+limit] of the model ('not found' only when that slice is empty). Non-trivial: under some prefix a deleted or expired key precedes a live key; inner_enumerations counts the pages checked.",
     assumptions=["limit 0 and limits below -1 are unspecified and not generated"],
     technique="model-based property testing (rapid) with exhaustive page enumeration per generated history")

prop("C22",
     level="exploration",
     tests=[dict(name="TestC22", quick=1500, thorough=6000)],
     rule="for each rapid-generated KV history and creator mode (all 3), a directory in a drawn state is produced - empty, freshly opened and closed, written (history executed), merged (history + Merge, RAM creators), or crashed (a drawn prefix of the recorded file-mutation trace) - and then opened, on a copy, with EACH of the three index modes (the 3x3 mode pairs are enumerated per case). Oracle: sparse<->RAM on a directory holding data => Open returns an error; whenever Open returns an error the directory tree (names, sizes, bytes) is identical before and after; RAM<->RAM on KV data => Open succeeds and the observation equals the source's; a directory holding no data either fails (tree unchanged) or opens empty. Non-trivial: directory with >=2 segments or a crash image.",
     assumptions=["'holds data' = some data segment contains a non-zero byte"],
     technique="property-based testing (rapid) with enumeration of mode pairs and directory states")

CONC_ASSUMPTIONS = [
    "the Go race detector reports only races on the paths the generated schedules executed (happens-before analysis); a report whose two access stacks contain no nutsdb frame is treated as a harness error (exit 2)",
    "invoke/return instants are taken from the process's monotonic clock",
    "a workload that has not finished after 60 s (normal: milliseconds) with goroutines parked on the database lock is a deadlock; any other timeout is inconclusive",
]

prop("C14",
     level="exploration", engine="E4", race=True,
     tests=[dict(name="TestC14", quick=600, thorough=2000)],
     rule="rapid-generated concurrent programs: 2-16 goroutines (at least one writer and one reader) x 1-6 transactions each on 1-2 databases open in the same process, all three index modes x RWMode x loading mode x sync x segment size 400/2000/8192, db.Update/db.View and manual Begin/Commit styles, a drawn yield plan (runtime.Gosched at every n-th file-mutation hook call and between the two passes of a reader). Version-stamped workload: a writer reads key ver=v, writes ver=v+1 and 1-3 drawn keys stamped v+1 (plus list/set/sorted-set appends in KeyVal mode); every writer also re-scores one sorted-set member to its version; 1 in 7 write transactions must fail (the function returns an error, or an entry larger than a segment makes Commit fail) and must leave no trace; a reader reads ver, the keys, RangeScan, PrefixScan, PrefixSearchScan with its own regular expression, the list, the set and the re-scored member, twice. 1 in 8 RAM-mode programs run on a database that was merged once before the goroutines start. Oracle: committed writers carry exactly the versions 1..W, consistent with real time; every reader observes exactly the state after one version v inside its real-time window and both passes agree; the final state equals the serial replay; the binary is built with -race and every race report with a nutsdb frame is a violation; deadlock watchdog. Non-trivial: >=2 pairs of transactions on the same database overlapped in real time. A quarter of the programs run on a FRESH handle: two segments are written, the database is closed and opened again, and the goroutines run the very first transactions of the new handle concurrently.",
     assumptions=CONC_ASSUMPTIONS,
     technique="randomized concurrent histories (rapid-generated programs and yield plans) under the race detector with an exact strict-serializability oracle")

prop("C17",
     level="exploration", engine="E4", race=True,
     tests=[dict(name="TestC17", quick=500, thorough=2000)],
     rule="rapid-generated concurrent programs as in C14 (2-8 worker goroutines x 1-6 version-stamped transactions, RAM index modes, segment sizes 300/400/1000 so that several segments exist) plus one goroutine that calls DB.Merge 1-4 times, each call released after a drawn amount of transaction progress; drawn yield plan. Oracle: every Merge returns nil or the 'at least 2 files' error; the strict-serializability oracle of C14 over all transactions (versions 1..W, snapshot readers inside their real-time window, both passes equal, scans and set membership agree with the version), final state = serial replay; -race build, every report with a nutsdb frame is a violation; deadlock watchdog. Non-trivial: a Merge that returned nil (it rewrote/removed segments) and overlapped at least one transaction in real time. A quarter of the programs run on a fresh handle (C14), so Merge can be among the first operations of a handle.",
     assumptions=CONC_ASSUMPTIONS + ["known finding c15-merge-list-duplication (Merge duplicates list elements even without concurrency): the writers' list append is dropped, the set and sorted-set appends stay (counted under excluded)"],
     technique="randomized concurrent histories with Merge under the race detector, strict-serializability oracle")

prop("C18",
     level="exploration", engine="E1+E4", race=True,
     tests=[dict(name="TestC18", quick=800, thorough=2500, race=False),
            dict(name="TestC18Conc", quick=400, thorough=1000)],
     rule="(a) rapid-generated mixed histories (KV in all three index modes, lists/sets/sorted sets in KeyVal mode, FileIO/MMap x loading mode x sync x segment size 200..8192, reopen and Merge steps) with 1-3 Backup steps at drawn positions: Backup into a new directory must succeed, the copy must open with the same options, its full observation must equal the source's observation taken just before the Backup, the source's observation must not change, and the copy is re-opened and compared again at the end of the history (after the source has written, merged, reopened); (b) concurrent: 2-8 goroutines of version-stamped writers and readers (all index modes) plus 1-2 goroutines calling Backup after a drawn amount of progress; each copy is opened and judged as a reader: it must show exactly the state after one version v (keys, scans, list, set) with v inside the real-time window of the Backup call; -race build. 1 in 8 concurrent programs are slow-copy cases: the database first gets 2-5 sealed 4 MiB segments and, for every Backup, a late writer starts a write transaction as soon as it sees the first copied file in the destination (provably after the copy began): its version must not be in the copy. Non-trivial: (a) a backup taken when >=2 segments exist, (b) a Backup call that overlapped a write transaction in real time; inner_enumerations counts the backups opened in (a).",
     assumptions=CONC_ASSUMPTIONS + ["known finding c15-merge-list-duplication: sequential histories that contain list calls run without their Merge steps (counted under excluded)"],
     technique="metamorphic (copy vs source observation) property testing + concurrent histories with a snapshot oracle")

prop("C20",
     level="exploration",
     tests=[dict(name="TestC20", quick=5000, thorough=20000),
            dict(name="TestC20Close", quick=600, thorough=4000),
            dict(name="FuzzAPIProgram", tier="quick", quick=1),  # seeds + committed corpus, plain run
            dict(name="FuzzAPIProgram", tier="thorough", fuzz=True, thorough=300, minimize="20x")],
     rule="(TestC20Close) rapid-generated concurrent programs: 1-6 writer goroutines (managed and manual two-put transactions) and 0-3 reader goroutines run 2-12 transactions each while another goroutine calls DB.Close after a drawn number of transactions have started (hook-driven yields as in C14): every call returns, none panics, a transaction begun after Close returned reports an error, Update/View/Begin/Close on the closed database report errors, the directory opens again; non-trivial when Close landed between successful and refused write transactions. (TestC20) rapid-generated programs over EVERY exported method of DB and Tx (all 53 Tx methods incl. FindTxIDOnDisk/FindOnDisk/FindLeafOnDisk, DB.Update/View/Begin/Merge/Backup/Close): a population phase fills key/value pairs, a list, two sets and a sorted set in the empty-named bucket and in bucket b (all three index modes, segment sizes 200/512/8192 so commits rotate), then 1-10 steps: writable or read-only transactions (managed and manual, commit or rollback) of 1-5 calls whose arguments are drawn from boundary-heavy domains (nil/empty/separator/255-, 256- and 70000-byte keys and buckets, MinInt64..MaxInt64 indexes, counts, offsets and limits, NaN/+-Inf/+-MaxFloat64/-0 scores, nil and populated range options, invalid regular expressions, extreme TTLs and timestamps), 1-3 further calls on the transaction after its Commit/Rollback, Close (then every kind of step on the closed database), reopen, Merge and Backup. Oracle: no call, Begin, Commit, Rollback, Update/View, Merge, Backup, Close or Open panics (so in particular a call that succeeded never makes the later Commit panic). Non-trivial: a program with an extreme argument aimed at a populated bucket, a call on a finished transaction, or a step after Close; inner_enumerations counts the API calls made.",
     assumptions=["an Open that returns an error (structures written in an index mode that does not support them) ends the program without a verdict (counted as stopped-open-error); Options values outside their documented ranges and nil receivers are not generated",
                  "thorough tier adds a coverage-guided campaign (FuzzAPIProgram: rapid.MakeFuzz over the same generator, 300 s, all cores); a fuzz worker that the Go engine kills for slowness is not a verdict unless its input fails when run alone"],
     technique="property-based testing (rapid) of API programs with hostile arguments; native Go fuzzing of the same generator; oracle: absence of panics", engine="E1+E5")

prop("C21",
     level="fault_enumeration", shards=6,
     tests=[dict(name="TestC21", quick=100, thorough=300, timeout_quick=900),
            dict(name="TestC21API", quick=400, thorough=2000),
            dict(name="FuzzEntryImage", tier="quick", quick=1), dict(name="FuzzRootIdxImage", tier="quick", quick=1),
            dict(name="FuzzBucketMetaImage", tier="quick", quick=1), dict(name="FuzzRecordFlips", tier="quick", quick=1),
            dict(name="FuzzEntryImage", tier="thorough", fuzz=True, thorough=120, minimize="5s"),
            dict(name="FuzzRootIdxImage", tier="thorough", fuzz=True, thorough=60, minimize="5s"),
            dict(name="FuzzBucketMetaImage", tier="thorough", fuzz=True, thorough=60, minimize="5s"),
            dict(name="FuzzRecordFlips", tier="thorough", fuzz=True, thorough=120, minimize="20x")],
     rule="rapid-generated records of the three stored formats - data entries (bucket, key, value of 0-12 bytes over {00,01,a,b,|,7f,80,ff} or 255/256/300 bytes; timestamp, TTL, tx id, file id, offset from edge values up to MaxUint64; all flag/status/structure codes incl. 0xffff), sparse root-index records and bucket metadata - encoded by the library (Entry.Encode, BPTreeRootIdx.Encode, BucketMeta.Encode), stored in a file followed by nothing, zeros, 0xff bytes or a second copy, and read back through DataFile.ReadAt with BOTH RWManagers, ReadBPTreeRootIdxAt and ReadBucketMeta. Oracle: (round-trip) the decoded fields equal the written ones exactly (the all-zero image may read as 'no record'); (corruption) for EVERY single-bit flip of the stored record and EVERY truncation of it (tail zero-filled as a torn write in a pre-sized segment leaves it, and file cut short) the reader returns an error, or 'no record', or a record equal to the written one in every field - anything else is corrupted data served as data. Flips of the top byte of a size field make the reader allocate 16 MiB-2 GiB and are enumerated for 1 case in 60 (drawn; counted under size-field-top-byte-flips-skipped otherwise). API-level variant (TestC21API): a generated key/value history is written through transactions in all three index modes and closed; one stored record is damaged (one bit flipped at a drawn position of the written region of a data segment - in sparse mode also of a root-index or bucket-meta file -, or the file cut short / its tail zeroed at a drawn byte); the directory is opened again: Open fails, or every pair any read returns (Get of every key, GetAll, PrefixScan, RangeScan) was written by the history to that bucket under that key. Image fuzzers (quick: seeds + committed corpus; thorough: coverage-guided campaigns): arbitrary bytes as a stored image - the reader returns an error, no record, or a record that re-encodes to exactly the stored bytes; both RWManagers agree. Non-trivial: record with a non-empty bucket, key or value (API variant: the damaged database opened and served data); inner_enumerations counts the images read. 3 in 16 records are nearly blank (empty key and value and timestamp 0, optionally every other field zero too), where a single field distinguishes the record from an unwritten slot.",
     assumptions=["a reader panic on an absurd size (makeslice) counts as 'not served' here",
                  "CRC32 collisions under multi-bit corruption are outside the single-bit/truncation fault model; the image fuzzers skip inputs whose declared field sizes exceed 1 MiB (the reader would allocate up to 3 x 4 GiB)"],
     technique="round-trip property testing (rapid) with exhaustive single-bit-flip and truncation enumeration per generated record; API-level corruption histories; native Go fuzzing of the decoders", engine="E1+E5")
