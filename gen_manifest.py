#!/usr/bin/env python3
"""Regenerates MANIFEST.json from checks_table.py (run after editing the table)."""
import json, os, subprocess, sys
ROOT = os.path.dirname(os.path.abspath(__file__))
sys.path.insert(0, ROOT)
from checks_table import PROPS
all_ids = [json.loads(l)["id"] for l in open(os.path.join(ROOT, "properties.jsonl"))]
hooks = subprocess.run(["git", "-C", "/repo", "log", "--format=%H %s"], stdout=subprocess.PIPE, text=True).stdout.splitlines()
hook_commits = [l.split()[0] for l in hooks if l.split(" ", 1)[1].startswith("verif:")]
LEVEL_TEXT = {
 "exploration": "Generated-input search against an explicit oracle (%s). It shows the property on every case explored (counts, class distribution and samples are in the evidence file) and has been shown to detect seeded realistic breakages (seeded/README.md); it proves nothing about cases it did not generate. That is the right level here because the property quantifies over unbounded histories/inputs/configurations and the oracle is executable but the state space is not enumerable.",
 "fault_enumeration": "For every generated workload the fault space named by the property (crash points and torn prefixes / power-loss images / failing writes and syncs / single-bit flips and truncations) is enumerated exhaustively from the recorded file-mutation trace or the stored image, and each point is judged by an explicit oracle (%s). Exhaustive per workload, sampled across workloads: it cannot miss a fault point of a workload it generated, and proves nothing about workloads it did not generate.",
}
checks = []
for pid in all_ids:
    if pid not in PROPS:
        continue
    c = PROPS[pid]
    checks.append(dict(
        property_id=pid,
        quick_cmd="./check %s quick" % pid,
        thorough_cmd="./check %s thorough" % pid,
        evidence_file="/verif/evidence/%s.json" % pid,
        replay_cmd_template="./check %s --replay {path}" % pid,
        engine=c.get("engine", "E1"),
        level_claimed=dict(category=c["level"], text=c.get("level_text") or (LEVEL_TEXT[c["level"]] % c.get("technique", "reference model / metamorphic / differential relation")), design_ref=c.get("design_ref", "DESIGN.md section 5, " + pid)),
        level_note=c.get("level_note", "; ".join(c.get("assumptions", []))),
        technique=c.get("technique", "property-based testing (rapid), model-based"),
    ))
na_reasons = {}
try:
    from checks_table import NOT_APPLICABLE
    na_reasons = NOT_APPLICABLE
except ImportError:
    pass
na = [dict(property_id=p, reason=na_reasons.get(p, "check not implemented yet in this tree (work in progress); the technique applies, see DESIGN.md")) for p in all_ids if p not in PROPS]
m = dict(
    version=1,
    setup_cmd="./check setup",
    hooks=dict(guard="verif", enable="go test -tags verif (the harness module replaces github.com/xujiajun/nutsdb with /repo)",
               baseline_off_cmd="cd /repo && GOFLAGS=-mod=mod go test -vet=off -count=1 -timeout 25m ./...",
               source_commits=hook_commits, add_only=True),
    engines=[
        dict(name="E1", path="harness/props", serves_properties=[p for p in all_ids if PROPS.get(p, {}).get("engine", "E1") == "E1" and p in PROPS], kind_free_text="model-based / metamorphic / differential property tests over generated histories (pgregory.net/rapid)"),
        dict(name="E2", path="harness/props", serves_properties=[p for p in all_ids if "E2" in PROPS.get(p, {}).get("engine", "")], kind_free_text="small-scope exhaustive enumeration of (state, op) pairs of the ds/* packages against the reference model"),
        dict(name="E3", path="harness/props", serves_properties=[p for p in all_ids if "E3" in PROPS.get(p, {}).get("engine", "")], kind_free_text="record-and-replay trace engine: all crash points, torn writes, power-loss images and fault points of generated workloads"),
        dict(name="E4", path="harness/props", serves_properties=[p for p in all_ids if "E4" in PROPS.get(p, {}).get("engine", "")], kind_free_text="randomized concurrent histories under the race detector with a version-stamped strict-serializability oracle"),
        dict(name="E5", path="harness/props", serves_properties=[p for p in all_ids if "E5" in PROPS.get(p, {}).get("engine", "")], kind_free_text="native Go fuzz targets (thorough tier), corpus replay in quick tier"),
    ],
    checks=checks,
    not_applicable=na,
    notes="All checks are ./check <id> <tier>; see DESIGN.md. KNOWN_FINDINGS.txt lists recorded and fixed defects.",
)
json.dump(m, open(os.path.join(ROOT, "MANIFEST.json"), "w"), indent=1)
print("MANIFEST.json: %d checks, %d not_applicable" % (len(checks), len(na)))
