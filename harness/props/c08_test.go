package props

import (
	"fmt"
	"math/rand"
	"os"
	"strings"
	"testing"
)

// C08 — a clean reopen preserves every observable result (metamorphic, model-free).

var fullObs = ObsOpts{KV: true, Structs: true, KVScans: true}

func obsFor(cfg Config) ObsOpts {
	if cfg.Mode == 0 {
		return fullObs
	}
	return ObsOpts{KV: true, KVScans: true}
}

// obsForCase is obsFor plus the deviations of recorded findings that depend on the history.
func obsForCase(c Case, st *Stats) ObsOpts {
	oo := obsFor(c.Cfg)
	if c.Cfg.Mode == 0 && Known("c15-merge-forgets-emptied-set-keys") {
		for _, s := range c.Steps {
			if s.K == "merge" {
				// known finding: after Merge and a reopen (or recovery) a set key whose members were all removed no
				// longer exists; SHasKey is left out of the observation of histories that call Merge
				oo.NoSetKeyExistence = true
				if st != nil {
					st.Deviate("c15-merge-forgets-emptied-set-keys")
				}
				break
			}
		}
	}
	return oo
}

func txShape(st Step) (multiStruct, moveOrPop, sameListTwice bool) {
	structs := map[string]bool{}
	listKeys := map[string]int{}
	for _, op := range st.Ops {
		if !isWrite(op.K) {
			continue
		}
		structs[structOf(op.K)] = true
		if strings.HasPrefix(op.K, "smove") || op.K == "spop" {
			moveOrPop = true
		}
		if structOf(op.K) == "l" && op.K != "rpush" && op.K != "lpush" {
			listKeys[string(op.B)+"\x00"+string(op.Key)]++
		}
	}
	for _, n := range listKeys {
		if n >= 2 {
			sameListTwice = true
		}
	}
	return len(structs) >= 2, moveOrPop, sameListTwice
}

func runC08(c Case, st *Stats) error {
	rand.Seed(c.Seed)
	dir := newDir("c08")
	defer os.RemoveAll(dir)
	h, err := OpenDB(dir, c.Cfg)
	if err != nil {
		return fmt.Errorf("open of an empty directory failed: %v", err)
	}
	defer func() { h.Close() }()
	u := UniverseOf(c)
	oo := obsFor(c.Cfg)
	oo.Strict = true // the same implementation is compared before Close and after Open: error, empty and zero are distinct
	interesting := false
	nontrivial := false
	var classes []string
	check := func(i int) error {
		before := Observe(h, u, oo)
		if before.Panic != "" {
			classes = append(classes, "skipped-panic-in-read")
			return errSkip
		}
		if err := h.Reopen(); err != nil {
			return fmt.Errorf("step %d: reopen failed: %v", i, err)
		}
		after := Observe(h, u, oo)
		if d := DiffObs(before, after); d != "" {
			return fmt.Errorf("step %d: observation changed across Close/Open: %s", i, d)
		}
		if interesting {
			nontrivial = true
		}
		return nil
	}
	steps := append([]Step(nil), c.Steps...)
	steps = append(steps, Step{K: "reopen"})
	for i, s := range steps {
		switch s.K {
		case "tx":
			s = resolveFills(h, s)
			tr := h.RunTx(s, true, nil)
			if tr.Panic != "" || tr.BeginErr != nil {
				classes = append(classes, "skipped-panic")
				st.Eval(c.JSON(), false, dedupe(classes)...)
				return nil
			}
			for _, r := range tr.Res {
				if r.Panic != "" {
					classes = append(classes, "skipped-panic")
					st.Eval(c.JSON(), false, dedupe(classes)...)
					return nil
				}
			}
			if tr.Committed {
				ms, mp, tw := txShape(s)
				if ms {
					classes = append(classes, "multi-structure-tx")
				}
				if mp {
					classes = append(classes, "smove-or-spop")
				}
				if tw {
					classes = append(classes, "same-list-mutated-twice-in-tx")
				}
				if ms || mp || tw {
					interesting = true
				}
			}
		case "clock":
			setClock(s.T)
			classes = append(classes, "virtual-clock")
		case "reopen":
			if err := check(i); err != nil {
				if err == errSkip {
					st.Eval(c.JSON(), false, dedupe(classes)...)
					return nil
				}
				return err
			}
		}
	}
	classes = append(classes, fmt.Sprintf("mode%d", c.Cfg.Mode))
	st.Eval(c.JSON(), nontrivial, dedupe(classes)...)
	return nil
}

var errSkip = fmt.Errorf("skip")

func init() { register("C08", runC08) }

func TestC08(t *testing.T) {
	p := mixedParams{Modes: []int{0, 0, 1, 2}, Segs: []int64{200, 333, 1024, 8192}, Buckets: []string{"b", "bb", "c", ""},
		MinB: 1, MaxB: 3, MaxSteps: 25, MaxOps: 4, ReopenPct: 15, Structs: true, ReadsInTx: true, Fill: true, LongBigSeg: true, ClockPct: 20}
	runProperty(t, "C08", genMixedCase(p), runC08)
}
