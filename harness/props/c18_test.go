package props

import (
	"fmt"
	"math/rand"
	"os"
	"path/filepath"
	"testing"

	"pgregory.net/rapid"
)

// C18 — Backup captures a consistent, openable copy.
// (a) sequential: a generated history with Backup steps at drawn points; every copy is
//     opened with the same options and its full observation must equal the source's
//     observation at the moment of the Backup (and must not change when the source
//     keeps writing, is merged or reopened afterwards).
// (b) concurrent (TestC18Conc in c14_test.go): Backup while version-stamped writers run.

func backupTo(h *DBH, dir string) (err error) {
	defer func() {
		if r := recover(); r != nil {
			err = fmt.Errorf("PANIC in Backup: %v", r)
			h.Dead = true
		}
	}()
	return h.DB.Backup(dir)
}

type backupCopy struct {
	dir  string
	want *Observation
	step int
}

func runC18(c Case, st *Stats) error {
	if c.Conc != nil {
		return runConcCase(c, st, "C18")
	}
	rand.Seed(c.Seed)
	if Known("c15-merge-list-duplication") {
		// known finding: Merge duplicates list elements in memory; histories with list calls run without their Merge steps
		hasList, hasMerge := false, false
		for _, s := range c.Steps {
			if s.K == "merge" {
				hasMerge = true
			}
			for _, op := range s.Ops {
				if structOf(op.K) == "l" {
					hasList = true
				}
			}
		}
		if hasList && hasMerge {
			var steps []Step
			for _, s := range c.Steps {
				if s.K != "merge" {
					steps = append(steps, s)
				}
			}
			c.Steps = steps
			st.Exclude("c15-merge-list-duplication")
		}
	}
	root := newDir("c18")
	defer os.RemoveAll(root)
	dir := filepath.Join(root, "src")
	h, err := OpenDB(dir, c.Cfg)
	if err != nil {
		return fmt.Errorf("open of an empty directory failed: %v", err)
	}
	defer func() { h.Close() }()
	u := UniverseOf(c)
	oo := obsForCase(c, st)
	var copies []backupCopy
	var classes []string
	nontrivial := false
	checkCopy := func(bc backupCopy, when string) error {
		ch, err := OpenDB(bc.dir, c.Cfg)
		if err != nil {
			return fmt.Errorf("backup taken at step %d does not open (%s): %v", bc.step, when, err)
		}
		got := Observe(ch, u, oo)
		ch.Close()
		if got.Panic != "" {
			return fmt.Errorf("backup taken at step %d: reading the copy panicked (%s): %s", bc.step, when, got.Panic)
		}
		if d := DiffObs(bc.want, got); d != "" {
			return fmt.Errorf("backup taken at step %d differs from the source state at backup time (%s): %s", bc.step, when, d)
		}
		return nil
	}
	for i, s := range c.Steps {
		switch s.K {
		case "tx":
			s = resolveFills(h, s)
			tr := h.RunTx(s, true, nil)
			skip := tr.Panic != "" || tr.BeginErr != nil
			for _, r := range tr.Res {
				if r.Panic != "" {
					skip = true
				}
			}
			if skip {
				st.Eval(c.JSON(), false, "skipped-panic")
				return nil
			}
		case "reopen":
			if err := h.Reopen(); err != nil {
				return fmt.Errorf("step %d: reopen failed: %v", i, err)
			}
		case "merge":
			_ = h.Merge()
			if h.Dead {
				st.Eval(c.JSON(), false, "skipped-panic")
				return nil
			}
		case "backup":
			before := Observe(h, u, oo)
			if before.Panic != "" {
				st.Eval(c.JSON(), false, "skipped-panic-in-read")
				return nil
			}
			bdir := filepath.Join(root, fmt.Sprintf("bk%d", i))
			if err := backupTo(h, bdir); err != nil {
				return fmt.Errorf("step %d: Backup into a new directory failed: %v", i, err)
			}
			after := Observe(h, u, oo)
			if d := DiffObs(before, after); d != "" {
				return fmt.Errorf("step %d: Backup changed what the source shows: %s", i, d)
			}
			bc := backupCopy{dir: bdir, want: before, step: i}
			if err := checkCopy(bc, "right after Backup"); err != nil {
				return err
			}
			copies = append(copies, bc)
			nseg := datFiles(dir)
			st.Sub(1)
			if nseg >= 2 {
				nontrivial = true
				classes = append(classes, "backup-of->=2-segments")
			}
			if len(before.Lines) == 0 {
				classes = append(classes, "backup-of-empty-db")
			}
		}
	}
	// the copies are independent of whatever the source did afterwards
	for _, bc := range copies {
		if err := checkCopy(bc, "at the end of the history"); err != nil {
			return err
		}
	}
	classes = append(classes, fmt.Sprintf("mode%d", c.Cfg.Mode), fmt.Sprintf("rw%d", c.Cfg.RW))
	st.Eval(c.JSON(), nontrivial, dedupe(classes)...)
	return nil
}

func init() { register("C18", runC18) }

func genBackupCase() *rapid.Generator[Case] {
	p := mixedParams{Modes: []int{0, 0, 1, 2}, Segs: []int64{200, 333, 1024, 8192}, Buckets: []string{"b", "c", "d"},
		MinB: 1, MaxB: 2, MaxSteps: 14, MaxOps: 4, ReopenPct: 10, MergePct: 6, Structs: true, Fill: true}
	base := genMixedCase(p)
	return rapid.Custom(func(t *rapid.T) Case {
		c := base.Draw(t, "history")
		nb := rapid.IntRange(1, 3).Draw(t, "nbackups")
		for i := 0; i < nb; i++ {
			pos := rapid.IntRange(0, len(c.Steps)).Draw(t, "bpos")
			steps := append([]Step(nil), c.Steps[:pos]...)
			steps = append(steps, Step{K: "backup"})
			c.Steps = append(steps, c.Steps[pos:]...)
		}
		return c
	})
}

func TestC18(t *testing.T) {
	runProperty(t, "C18", genBackupCase(), runC18)
}
