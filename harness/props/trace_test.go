package props

import (
	"bytes"
	"errors"
	"fmt"
	"hash/fnv"
	"os"
	"path/filepath"
	"sort"
	"strings"
	"sync"

	"github.com/xujiajun/nutsdb"
)

// ---- E3: trace engine -------------------------------------------------------
// The build-tagged hook in /repo reports every file mutation before it happens.
// A Recorder keeps them (with markers inserted by the driver); a memFS replays
// any prefix of the trace, optionally with a torn last write, into an image
// directory that is then opened like after a crash.

// Ev is one recorded event.
type Ev struct {
	Kind string // mkdir open truncate write sync remove mark
	Path string // relative to the recorder root
	Off  int64
	Size int64
	Data []byte
	Mark string
}

// FaultSpec asks the hook to fail the N-th event of Kind after the marker Step.
type FaultSpec struct {
	Step    int
	Kind    string // write | sync
	At      int
	Partial int
	armed   bool
	seen    int
	Fired   bool
}

type Recorder struct {
	mu      sync.Mutex
	Root    string
	Evs     []Ev
	Fault   *FaultSpec
	Yield   func(ev *nutsdb.VerifEvent)
	Discard bool // only yield, record nothing (concurrent runs)
	// FaultOnly: inject the armed fault but record no events (twin runs that need faults, not traces)
	FaultOnly bool
}

var (
	recMu     sync.RWMutex
	recorders []*Recorder
	hookOnce  sync.Once
)

var errInjected = errors.New("verif: injected I/O error")

func installHook() {
	hookOnce.Do(func() {
		nutsdb.VerifHook = func(ev *nutsdb.VerifEvent) *nutsdb.VerifFault {
			recMu.RLock()
			var r *Recorder
			for _, x := range recorders {
				if strings.HasPrefix(ev.Path, x.Root+"/") || ev.Path == x.Root {
					r = x
					break
				}
			}
			recMu.RUnlock()
			if r == nil {
				return nil
			}
			return r.on(ev)
		}
	})
}

func StartRecorder(root string) *Recorder {
	installHook()
	r := &Recorder{Root: root}
	recMu.Lock()
	recorders = append(recorders, r)
	recMu.Unlock()
	return r
}

func (r *Recorder) Stop() {
	recMu.Lock()
	for i, x := range recorders {
		if x == r {
			recorders = append(recorders[:i], recorders[i+1:]...)
			break
		}
	}
	recMu.Unlock()
}

func (r *Recorder) on(ev *nutsdb.VerifEvent) *nutsdb.VerifFault {
	if r.Yield != nil {
		r.Yield(ev)
	}
	if ev.Kind == "read" || ev.Kind == "close" || r.Discard {
		return nil
	}
	r.mu.Lock()
	defer r.mu.Unlock()
	rel := strings.TrimPrefix(strings.TrimPrefix(ev.Path, r.Root), "/")
	if f := r.Fault; f != nil && f.armed && !f.Fired && ev.Kind == f.Kind {
		if f.seen == f.At {
			f.Fired = true
			p := f.Partial
			if p >= len(ev.Data) && len(ev.Data) > 0 {
				p = len(ev.Data) - 1 // a failed write is never complete: at least the last byte is missing
			}
			// A failed write must leave the record incomplete on disk: if the bytes that are NOT written are
			// already in the file at that place (zeros of the preallocated segment, or the tail of an earlier torn
			// record that happened to carry the same bucket and key), the "failed" write is physically complete.
			if ev.Kind == "write" {
				existing := make([]byte, len(ev.Data))
				if fd, err := os.Open(ev.Path); err == nil {
					_, _ = fd.ReadAt(existing, ev.Off) // short read: the rest stays zero, like the file would be
					fd.Close()
				}
				for p > 0 && bytes.Equal(existing[p:], ev.Data[p:]) {
					p--
				}
			}
			if ev.Kind == "write" && p > 0 && !r.FaultOnly {
				r.Evs = append(r.Evs, Ev{Kind: "write", Path: rel, Off: ev.Off, Size: int64(p), Data: append([]byte(nil), ev.Data[:p]...)})
			}
			return &nutsdb.VerifFault{Err: errInjected, Partial: p}
		}
		f.seen++
	}
	if r.FaultOnly {
		return nil
	}
	e := Ev{Kind: ev.Kind, Path: rel, Off: ev.Off, Size: ev.Size}
	if ev.Kind == "write" {
		e.Data = append([]byte(nil), ev.Data...)
	}
	r.Evs = append(r.Evs, e)
	return nil
}

func (r *Recorder) Mark(s string) {
	r.mu.Lock()
	if !r.FaultOnly {
		r.Evs = append(r.Evs, Ev{Kind: "mark", Mark: s})
	}
	if f := r.Fault; f != nil {
		if s == fmt.Sprintf("begin %d", f.Step) {
			f.armed = true
		} else if strings.HasPrefix(s, fmt.Sprintf("end %d", f.Step)) {
			f.armed = false
		}
	}
	r.mu.Unlock()
}

// ---- in-memory file system ----

type memFS struct {
	files map[string][]byte
	dirs  map[string]bool
}

func newMemFS() *memFS { return &memFS{files: map[string][]byte{}, dirs: map[string]bool{"": true}} }

func (fs *memFS) clone() *memFS {
	c := newMemFS()
	for k, v := range fs.files {
		c.files[k] = v // copy on write: apply always replaces the slice
	}
	for k := range fs.dirs {
		c.dirs[k] = true
	}
	return c
}

// apply applies one event; torn >= 0 applies only the first torn bytes of a write.
func (fs *memFS) apply(e Ev, torn int) {
	switch e.Kind {
	case "mkdir":
		p := e.Path
		for p != "" && p != "." {
			fs.dirs[p] = true
			p = filepath.Dir(p)
			if p == "." {
				break
			}
		}
	case "open":
		if _, ok := fs.files[e.Path]; !ok {
			fs.files[e.Path] = []byte{}
		}
	case "truncate":
		cur := fs.files[e.Path]
		if int64(len(cur)) < e.Size {
			n := make([]byte, e.Size)
			copy(n, cur)
			fs.files[e.Path] = n
		}
	case "write":
		data := e.Data
		if torn >= 0 && torn < len(data) {
			data = data[:torn]
		}
		cur := fs.files[e.Path]
		end := e.Off + int64(len(data))
		sz := int64(len(cur))
		if end > sz {
			sz = end
		}
		n := make([]byte, sz)
		copy(n, cur)
		copy(n[e.Off:], data)
		fs.files[e.Path] = n
	case "remove":
		delete(fs.files, e.Path)
	}
}

func (fs *memFS) hash() uint64 {
	h := fnv.New64a()
	var names []string
	for k := range fs.files {
		names = append(names, k)
	}
	sort.Strings(names)
	for _, n := range names {
		h.Write([]byte(n))
		h.Write([]byte{0})
		h.Write(fs.files[n])
		h.Write([]byte{1})
	}
	var ds []string
	for d := range fs.dirs {
		ds = append(ds, d)
	}
	sort.Strings(ds)
	for _, d := range ds {
		h.Write([]byte(d))
		h.Write([]byte{2})
	}
	return h.Sum64()
}

// materialize writes the image into dir (which is emptied first).
func (fs *memFS) materialize(dir string) error {
	if err := os.RemoveAll(dir); err != nil {
		return err
	}
	var ds []string
	for d := range fs.dirs {
		ds = append(ds, d)
	}
	sort.Strings(ds)
	for _, d := range ds {
		if err := os.MkdirAll(filepath.Join(dir, d), 0o755); err != nil {
			return err
		}
	}
	for n, b := range fs.files {
		p := filepath.Join(dir, n)
		if err := os.MkdirAll(filepath.Dir(p), 0o755); err != nil {
			return err
		}
		if err := os.WriteFile(p, b, 0o644); err != nil {
			return err
		}
	}
	return nil
}

// readTree reads a directory into name -> bytes (dirs as name + "/").
func readTree(dir string) (map[string][]byte, error) {
	out := map[string][]byte{}
	err := filepath.Walk(dir, func(p string, info os.FileInfo, err error) error {
		if err != nil {
			return err
		}
		rel, _ := filepath.Rel(dir, p)
		if rel == "." {
			return nil
		}
		if info.IsDir() {
			out[rel+"/"] = nil
			return nil
		}
		b, err := os.ReadFile(p)
		if err != nil {
			return err
		}
		out[rel] = b
		return nil
	})
	return out, err
}

func diffTrees(a, b map[string][]byte) string {
	var names []string
	for k := range a {
		names = append(names, k)
	}
	for k := range b {
		if _, ok := a[k]; !ok {
			names = append(names, k)
		}
	}
	sort.Strings(names)
	for _, n := range names {
		x, okx := a[n]
		y, oky := b[n]
		if okx != oky {
			return fmt.Sprintf("%s: present=%v vs present=%v", n, okx, oky)
		}
		if !bytes.Equal(x, y) {
			return fmt.Sprintf("%s: contents differ (len %d vs %d)", n, len(x), len(y))
		}
	}
	return ""
}

// selfCheck replays the whole trace and compares it with the real directory:
// a mismatch means a file mutation is not hooked.
func selfCheck(evs []Ev, realDir string) error {
	fs := newMemFS()
	for _, e := range evs {
		fs.apply(e, -1)
	}
	want := map[string][]byte{}
	for n, b := range fs.files {
		want[n] = b
	}
	for d := range fs.dirs {
		if d != "" {
			want[d+"/"] = nil
		}
	}
	got, err := readTree(realDir)
	if err != nil {
		return err
	}
	// directories implied by files
	for n := range want {
		for d := filepath.Dir(n); d != "." && d != "/" && d != ""; d = filepath.Dir(d) {
			want[strings.TrimSuffix(d, "/")+"/"] = nil
		}
	}
	if d := diffTrees(want, got); d != "" {
		return fmt.Errorf("HOOK-COVERAGE: trace replay differs from the real directory: %s", d)
	}
	return nil
}

// tornPoints returns the torn-prefix lengths explored for a write.
func tornPoints(e Ev) []int {
	n := len(e.Data)
	if n == 0 {
		return nil
	}
	set := map[int]bool{}
	add := func(x int) {
		if x >= 0 && x < n {
			set[x] = true
		}
	}
	add(0)
	add(n - 1)
	add(n / 2)
	if strings.HasSuffix(e.Path, ".dat") && n >= 42 {
		for _, x := range []int{4, 12, 16, 20, 22, 26, 30, 32, 34, 42} {
			add(x)
		}
		// bucket/key/value boundaries from the header
		le := func(b []byte) int { return int(uint32(b[0]) | uint32(b[1])<<8 | uint32(b[2])<<16 | uint32(b[3])<<24) }
		ks, vs, bsz := le(e.Data[12:16]), le(e.Data[16:20]), le(e.Data[26:30])
		add(42 + bsz)
		add(42 + bsz + ks)
		add(42 + bsz + ks + vs/2)
	} else {
		add(1)
	}
	var out []int
	for x := range set {
		out = append(out, x)
	}
	sort.Ints(out)
	return out
}

func allZero(b []byte) bool {
	for _, x := range b {
		if x != 0 {
			return false
		}
	}
	return true
}
