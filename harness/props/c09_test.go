package props

import (
	"fmt"
	"os"
	"testing"

	"pgregory.net/rapid"
)

// C09 — Open succeeds on every directory the library produced:
// (i) clean Close after any history (all index modes), (ii) every crash image.

func genC09() *rapid.Generator[Case] {
	return rapid.Custom(func(t *rapid.T) Case {
		p := mixedParams{Modes: []int{0, 0, 1, 2}, Segs: []int64{120, 200, 333, 1024}, Buckets: []string{"b", "c", "", "bb"},
			MinB: 1, MaxB: 3, MaxSteps: 14, MaxOps: 4, ReopenPct: 12, MergePct: 6, Structs: true, ReadsInTx: true, Fill: true, FaultPct: 10}
		c := genMixedCase(p).Draw(t, "hist")
		// reads of buckets that were never written, through every read API
		ghost := S("ghost")
		reads := []Op{{K: "get", B: ghost, Key: "a"}, {K: "getall", B: ghost}, {K: "rangescan", B: ghost, Key: "a", Key2: "b"},
			{K: "prefixscan", B: ghost, Key: "a", Lim: -1}, {K: "prefixsearchscan", B: ghost, Key: "a", Re: ".*", Lim: -1}}
		if c.Cfg.Mode == 0 {
			reads = append(reads, Op{K: "lrange", B: ghost, Key: "a", I: 0, J: -1}, Op{K: "smembers", B: ghost, Key: "a"},
				Op{K: "zmembers", B: ghost}, Op{K: "lpop", B: ghost, Key: "a"}, Op{K: "spop", B: ghost, Key: "a"}, Op{K: "zpopmax", B: ghost},
				Op{K: "srem", B: ghost, Key: "a", Vs: []S{"x"}}, Op{K: "zrem", B: ghost, Key: "a"})
		}
		pos := rapid.IntRange(0, len(c.Steps)).Draw(t, "ghostpos")
		st := Step{K: "tx", Ops: reads, Managed: rapid.Bool().Draw(t, "gm")}
		steps := append([]Step(nil), c.Steps[:pos]...)
		steps = append(steps, st)
		steps = append(steps, c.Steps[pos:]...)
		c.Steps = steps
		return c
	})
}

func runC09(c Case, st *Stats) error {
	sparse := c.Cfg.Mode == 2
	if sparse && Known("sparse-index-files-not-crash-consistent") {
		// Merge is not supported in sparse mode; the call fails cleanly and is kept in the history.
		// Known finding: the sparse index files are written non-atomically, so a failed write of one of them (like a
		// crash there, cf. C12) leaves an empty file on which Open fails: no injected commit failures in sparse mode
		stripped := false
		steps := append([]Step(nil), c.Steps...)
		for i := range steps {
			if steps[i].Fault != nil {
				steps[i].Fault = nil
				stripped = true
			}
		}
		if stripped {
			c.Steps = steps
			st.Exclude("sparse-index-files-not-crash-consistent")
		}
	}
	rc, h, rec, err := record(c, nil)
	if rec != nil {
		defer rec.Stop()
	}
	if rc != nil {
		defer os.RemoveAll(rc.Dir)
	}
	if err != nil {
		if h != nil {
			h.Close()
		}
		return err
	}
	if rc.Skipped != "" {
		h.Close()
		st.Eval(c.JSON(), false, "skipped-panic")
		return nil
	}
	rec.Mark("close")
	if err := h.Close(); err != nil {
		return fmt.Errorf("close failed: %v", err)
	}
	rc.Evs = rec.Evs
	rec.Stop()
	if err := selfCheck(rc.Evs, rc.Dir); err != nil {
		panic(err)
	}
	// (i) clean close
	waitMs()
	h2, err := OpenDB(rc.Dir, c.Cfg)
	if err != nil {
		return fmt.Errorf("Open failed after a clean Close: %v", err)
	}
	h2.Close()
	classes := []string{fmt.Sprintf("mode%d-rw%d-load%d", c.Cfg.Mode, c.Cfg.RW, c.Cfg.Load)}
	fills := 0
	for _, s := range c.Steps {
		for _, op := range s.Ops {
			if op.Fill {
				fills++
			}
		}
	}
	if fills > 0 {
		classes = append(classes, "exact-fill")
	}
	if rc.MergeOK > 0 {
		classes = append(classes, "merged")
	}
	// (ii) crash images
	if sparse && Known("sparse-index-files-not-crash-consistent") {
		st.Exclude("sparse-index-files-not-crash-consistent")
		st.Eval(c.JSON(), fills > 0 || true, append(classes, "clean-close-only")...)
		return nil
	}
	cs, err := exploreCrashes(c, rc, crashOpts{Torn: true, Continue: true}, st, "C09")
	st.Class("images-continued-after-recovery(write,close,open)", cs.Continued)
	st.Sub(cs.Images)
	if err != nil {
		return err
	}
	_, cl := crashClasses(c, rc, cs)
	st.Eval(c.JSON(), cs.Images > 3, append(classes, cl...)...)
	return nil
}

func init() { register("C09", runC09) }

func TestC09(t *testing.T) { runProperty(t, "C09", genC09(), runC09) }
