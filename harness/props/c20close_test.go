package props

import (
	"fmt"
	"os"
	"runtime"
	"sync"
	"sync/atomic"
	"testing"
	"time"

	"github.com/xujiajun/nutsdb"
	"pgregory.net/rapid"
)

// C20, concurrent form of "on a closed database ... it returns a result or an error": several goroutines run
// managed and manual transactions in a loop while another goroutine calls DB.Close at a drawn moment. Whatever
// the interleaving - a transaction that was waiting for the database lock when Close ran, a Begin that started
// before Close and got the lock after it - every call returns; none panics. Calls made after Close returned
// report an error, and the directory opens again.

func genC20Close() *rapid.Generator[Case] {
	return rapid.Custom(func(t *rapid.T) Case {
		c := Case{Cfg: genConfig([]int{0, 1, 2}, []int64{400, 2000, 8192}).Draw(t, "cfg")}
		c.Extra = map[string]interface{}{
			"closerace":  true,
			"writers":    rapid.IntRange(1, 6).Draw(t, "writers"),
			"readers":    rapid.IntRange(0, 3).Draw(t, "readers"),
			"ntx":        rapid.IntRange(2, 12).Draw(t, "ntx"),
			"closeafter": rapid.IntRange(0, 20).Draw(t, "closeafter"),
			"yield":      rapid.SampledFrom([]int{0, 1, 2, 3, 5}).Draw(t, "yield"),
			"manual":     rapid.Bool().Draw(t, "manual"),
		}
		return c
	})
}

func extraInt(c Case, k string) int {
	switch v := c.Extra[k].(type) {
	case int:
		return v
	case float64:
		return int(v)
	}
	return 0
}

func runC20Close(c Case, st *Stats) error {
	dir := newDir("c20c")
	defer os.RemoveAll(dir)
	h, err := OpenDB(dir, c.Cfg)
	if err != nil {
		return fmt.Errorf("open of an empty directory failed: %v", err)
	}
	db := h.DB
	rec := StartRecorder(dir)
	rec.Discard = true
	defer rec.Stop()
	if y := int64(extraInt(c, "yield")); y > 0 {
		rec.Yield = func(ev *nutsdb.VerifEvent) {
			if atomic.AddInt64(&hookCounter, 1)%y == 0 {
				runtime.Gosched()
			}
		}
	}
	writers, readers, ntx, closeAfter := extraInt(c, "writers"), extraInt(c, "readers"), extraInt(c, "ntx"), extraInt(c, "closeafter")
	manual, _ := c.Extra["manual"].(bool)
	var started, okBefore, errAfter, lateOK int64
	var closed int32
	var mu sync.Mutex
	var panics []string
	guard := func(who string, f func()) {
		defer func() {
			if r := recover(); r != nil {
				mu.Lock()
				panics = append(panics, fmt.Sprintf("%s: %v", who, r))
				mu.Unlock()
			}
		}()
		f()
	}
	var wg sync.WaitGroup
	for w := 0; w < writers; w++ {
		w := w
		wg.Add(1)
		go func() {
			defer wg.Done()
			for i := 0; i < ntx; i++ {
				atomic.AddInt64(&started, 1)
				wasClosed := atomic.LoadInt32(&closed) == 1
				var e error
				guard(fmt.Sprintf("writer %d tx %d", w, i), func() {
					k, v := []byte(fmt.Sprintf("w%d", w)), []byte(fmt.Sprintf("v%d", i))
					if manual && i%2 == 1 {
						var tx *nutsdb.Tx
						if tx, e = db.Begin(true); e == nil {
							if e = tx.Put("b", k, v, 0); e == nil {
								e = tx.Put("b", append(k, 'x'), v, 0)
							}
							if e == nil {
								e = tx.Commit()
							} else {
								tx.Rollback()
							}
						}
						return
					}
					e = db.Update(func(tx *nutsdb.Tx) error {
						if err := tx.Put("b", k, v, 0); err != nil {
							return err
						}
						return tx.Put("b", append(k, 'x'), v, 0)
					})
				})
				switch {
				case wasClosed && e == nil:
					atomic.AddInt64(&lateOK, 1)
				case wasClosed:
					atomic.AddInt64(&errAfter, 1)
				case e == nil:
					atomic.AddInt64(&okBefore, 1)
				}
			}
		}()
	}
	for r := 0; r < readers; r++ {
		r := r
		wg.Add(1)
		go func() {
			defer wg.Done()
			for i := 0; i < ntx; i++ {
				atomic.AddInt64(&started, 1)
				guard(fmt.Sprintf("reader %d tx %d", r, i), func() {
					db.View(func(tx *nutsdb.Tx) error {
						tx.Get("b", []byte("w0"))
						tx.GetAll("b")
						tx.PrefixScan("b", []byte("w"), 0, 10)
						return nil
					})
				})
			}
		}()
	}
	wg.Add(1)
	var closeErr error
	go func() {
		defer wg.Done()
		for atomic.LoadInt64(&started) < int64(closeAfter) && atomic.LoadInt64(&started) < int64((writers+readers)*ntx) {
			runtime.Gosched()
		}
		guard("Close", func() { closeErr = db.Close() })
		atomic.StoreInt32(&closed, 1)
	}()
	done := make(chan struct{})
	go func() { wg.Wait(); close(done) }()
	select {
	case <-done:
	case <-time.After(60 * time.Second):
		mu.Lock()
		if len(panics) > 0 {
			// a panic inside a transaction leaves the database lock held: everything behind it waits forever
			msg := panics[0]
			mu.Unlock()
			return fatalViolation{fmt.Sprintf("panic while Close ran concurrently with transactions (the lock it held was never released): %s", msg)}
		}
		mu.Unlock()
		return fatalViolation{fmt.Sprintf("deadlock: transactions and Close did not finish within 60 s:\n%s", func() string { b := make([]byte, 1<<16); return string(b[:runtime.Stack(b, true)]) }())}
	}
	if len(panics) > 0 {
		return fmt.Errorf("panic while Close ran concurrently with transactions: %s", panics[0])
	}
	if closeErr != nil {
		return fmt.Errorf("Close failed: %v", closeErr)
	}
	if lateOK > 0 {
		return fmt.Errorf("%d write transactions that began after Close had returned reported success", lateOK)
	}
	// after Close returned, every entry point reports an error
	var after []string
	guard("calls after Close", func() {
		if e := db.Update(func(tx *nutsdb.Tx) error { return tx.Put("b", []byte("late"), []byte("v"), 0) }); e == nil {
			after = append(after, "Update succeeded")
		}
		if e := db.View(func(tx *nutsdb.Tx) error { return nil }); e == nil {
			after = append(after, "View succeeded")
		}
		if _, e := db.Begin(true); e == nil {
			after = append(after, "Begin succeeded")
		}
		if e := db.Close(); e == nil {
			after = append(after, "second Close succeeded")
		}
	})
	if len(panics) > 0 {
		return fmt.Errorf("panic on the closed database: %s", panics[0])
	}
	if len(after) > 0 {
		return fmt.Errorf("on the closed database: %v", after)
	}
	time.Sleep(2 * time.Millisecond)
	h2, err := OpenDB(dir, c.Cfg)
	if err != nil {
		return fmt.Errorf("Open after the concurrent Close failed: %v", err)
	}
	h2.Close()
	var classes []string
	if okBefore > 0 && errAfter > 0 {
		classes = append(classes, "close-in-the-middle-of-the-traffic")
	}
	classes = append(classes, fmt.Sprintf("mode%d", c.Cfg.Mode))
	st.Class("write-transactions-refused-after-close", int(errAfter))
	st.Eval(c.JSON(), okBefore > 0 && errAfter > 0, classes...)
	return nil
}

func TestC20Close(t *testing.T) {
	runProperty(t, "C20", genC20Close(), runC20)
}
