package props

import (
	"fmt"
	"os"
	"testing"

	"pgregory.net/rapid"
)

// C09 / C10 / C16 — crash-point enumeration over generated workloads.

type wlParams struct {
	Modes     []int
	Segs      []int64
	MaxSteps  int
	MergePct  int
	ReopenPct int
	FailPct   int
	FaultPct  int // per cent of multi-call transactions whose Commit gets an injected write error
	Structs   bool
	SyncOnly  bool
}

func genWorkload(p wlParams) *rapid.Generator[Case] {
	return rapid.Custom(func(t *rapid.T) Case {
		c := Case{Cfg: genConfig(p.Modes, p.Segs).Draw(t, "cfg"), Seed: int64(rapid.IntRange(1, 1<<20).Draw(t, "rseed"))}
		if p.SyncOnly {
			c.Cfg.Sync = true
		}
		buckets := []string{"b", "c"}
		kvKeys := genKeys(keyAlphabet, 2, 5, 2).Draw(t, "kvkeys")
		sKeys := genKeys(keyAlphabetNoSep, 1, 2, 2).Draw(t, "skeys")
		structs := p.Structs && c.Cfg.Mode == 0
		if c.Cfg.Mode != 0 && p.MergePct > 0 && c.Cfg.Mode == 2 {
			c.Cfg.Mode = 1 // Merge is not supported in sparse mode
		}
		gop := genMixedOp(structs, buckets, kvKeys, sKeys, true, nil)
		maxSteps := p.MaxSteps
		if p.MergePct > 0 && c.Cfg.Seg <= 200 && rapid.IntRange(0, 5).Draw(t, "manysegs") == 3 {
			maxSteps *= 3 // more than ten segments before a Merge (file ids with two digits)
		}
		n := rapid.IntRange(2, maxSteps).Draw(t, "nsteps")
		for i := 0; i < n; i++ {
			r := rapid.IntRange(0, 99).Draw(t, "stepkind")
			switch {
			case r < p.ReopenPct:
				c.Steps = append(c.Steps, Step{K: "reopen"})
			case r < p.ReopenPct+p.MergePct:
				c.Steps = append(c.Steps, Step{K: "merge"})
			case structs && p.MergePct > 0 && rapid.IntRange(0, 15).Draw(t, "emptied") == 9:
				c.Steps = append(c.Steps, genAfterMergeOnEmptied(t, buckets[0], c.Cfg.Seg)...)
			case structs && rapid.IntRange(0, 11).Draw(t, "noopatcommit") == 7:
				c.Steps = append(c.Steps, genNoopAtCommit(t, buckets[0], i)...)
			default:
				nops := rapid.IntRange(1, 5).Draw(t, "nops")
				st := Step{K: "tx", Managed: rapid.Bool().Draw(t, "managed")}
				for j := 0; j < nops; j++ {
					op := gop(t)
					if !isWrite(op.K) {
						continue
					}
					st.Ops = append(st.Ops, op)
				}
				if len(st.Ops) == 0 {
					st.Ops = append(st.Ops, genKVWrite(buckets, kvKeys, false).Draw(t, "kvop"))
				}
				f := rapid.IntRange(0, 99).Draw(t, "failkind")
				switch {
				case f < p.FailPct/2:
					st.End = "rollback"
				case f < p.FailPct:
					// an oversized entry at a drawn position makes Commit fail
					pos := rapid.IntRange(0, len(st.Ops)).Draw(t, "bigpos")
					big := Op{K: "putbig", B: S(buckets[0]), Key: S(kvKeys[0]), I: rapid.SampledFrom([]int{0, 1, 1, 2}).Draw(t, "excess")}
					ops := append([]Op(nil), st.Ops[:pos]...)
					ops = append(ops, big)
					ops = append(ops, st.Ops[pos:]...)
					st.Ops = ops
				case p.FaultPct > 0 && len(st.Ops) >= 2 && f >= 100-p.FaultPct:
					st.Fault = &Fault{Kind: "write", At: rapid.IntRange(0, 3).Draw(t, "faultat"), Partial: rapid.SampledFrom([]int{0, 7, 43, 1 << 20}).Draw(t, "faultpartial")}
				}
				c.Steps = append(c.Steps, st)
			}
		}
		return c
	})
}

func crashClasses(c Case, rc *recording, cs crashStats) (bool, []string) {
	var classes []string
	if cs.InCommit > 0 {
		classes = append(classes, "crash-inside-commit")
	}
	if cs.TornHeader > 0 {
		classes = append(classes, "torn-inside-header")
	}
	if cs.InMerge > 0 {
		classes = append(classes, "crash-inside-merge")
	}
	if rc.Failed > 0 {
		classes = append(classes, "failed-transaction-in-workload")
	}
	if rc.Faults > 0 {
		classes = append(classes, "commit-with-injected-write-error-in-workload")
	}
	if datFiles(rc.Dir) > 1 {
		classes = append(classes, "rotation")
	}
	classes = append(classes, fmt.Sprintf("mode%d-rw%d-sync%v", c.Cfg.Mode, c.Cfg.RW, c.Cfg.Sync))
	multi := false
	for _, s := range c.Steps {
		if s.K == "tx" && len(s.Ops) >= 2 {
			multi = true
		}
	}
	return (cs.InCommit > 0 && multi) || cs.TornHeader > 0, classes
}

func runCrashCase(c Case, st *Stats, prop string, co crashOpts) error {
	if c.Cfg.Mode == 2 && Known("sparse-index-files-not-crash-consistent") {
		// known finding: construct around it (same workload, KeyOnly index mode)
		st.Exclude("sparse-index-files-not-crash-consistent")
		c.Cfg.Mode = 1
	}
	rc, h, rec, err := record(c, nil)
	if rec != nil {
		defer rec.Stop()
	}
	if rc != nil {
		defer os.RemoveAll(rc.Dir)
	}
	if err != nil {
		if h != nil {
			h.Close()
		}
		return err
	}
	if rc.Skipped != "" {
		h.Close()
		st.Eval(c.JSON(), false, "skipped-panic")
		return nil
	}
	rec.Mark("close")
	if err := h.Close(); err != nil {
		return fmt.Errorf("close failed: %v", err)
	}
	rc.Evs = rec.Evs
	rec.Stop()
	if err := selfCheck(rc.Evs, rc.Dir); err != nil {
		panic(err) // infrastructure problem, never a verdict
	}
	cs, err := exploreCrashes(c, rc, co, st, prop)
	st.Sub(cs.Images)
	st.Class("images-continued-after-recovery(write,close,open)", cs.Continued)
	if err != nil {
		return err
	}
	nt, classes := crashClasses(c, rc, cs)
	if co.OnlyMerge {
		nt = cs.InMerge > 2
	}
	st.Eval(c.JSON(), nt, classes...)
	return nil
}

func runC10(c Case, st *Stats) error {
	return runCrashCase(c, st, "C10", crashOpts{CheckState: true, Torn: true, Continue: true})
}

func init() { register("C10", runC10) }

func TestC10(t *testing.T) {
	p := wlParams{Modes: []int{0, 0, 1, 2}, Segs: []int64{200, 333, 1024}, MaxSteps: 10, ReopenPct: 8, FailPct: 16, FaultPct: 8, Structs: true}
	runProperty(t, "C10", genWorkload(p), runC10)
}
