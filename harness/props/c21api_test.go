package props

import (
	"encoding/binary"
	"fmt"
	"os"
	"path/filepath"
	"sort"
	"strings"
	"testing"

	"pgregory.net/rapid"
)

// C21, API-level variant — corruption of the stored bytes is never served as data through
// the public API. A generated KV history is written through transactions and the database
// is closed; then ONE stored record is damaged (a single bit flipped at a drawn position of
// the written region of a drawn data segment - in sparse mode also of a root-index or
// bucket-meta file -, or the file cut short / its tail zeroed at a drawn byte), the
// directory is opened again with the same options and everything is read.
//
// Oracle: Open fails, or every (key, value) pair that any read returns was written by the
// history to that bucket under that key (any value the key ever had: a damaged record may
// legitimately hide itself and the records after it). A value or key that was never
// written is corrupted data served as data.

type corruption struct {
	Kind string `json:"kind"` // flip, cut, zero
	File int    `json:"file"` // index into the sorted list of candidate files (taken modulo)
	Pos  int    `json:"pos"`  // position per mille of the written region (bit for flip, byte otherwise)
	Sub  int    `json:"sub"`  // bit within the byte
	Side bool   `json:"side"` // sparse mode: damage an index/meta file instead of a data segment
}

func genC21APICase() *rapid.Generator[Case] {
	return rapid.Custom(func(t *rapid.T) Case {
		c := Case{Cfg: genConfig([]int{0, 1, 1, 2}, []int64{200, 333, 1024, 8192}).Draw(t, "cfg")}
		nb := 2
		if c.Cfg.Mode == 2 {
			nb = 1 // sparse mode: one bucket (C04 finding: prefix-related bucket names collide)
		}
		buckets := genBuckets(1, nb).Draw(t, "buckets")
		if c.Cfg.Mode == 2 {
			buckets = buckets[:1]
		}
		keys := genKeys(keyAlphabet, 2, 6, 3).Draw(t, "keys")
		n := rapid.IntRange(1, 14).Draw(t, "nsteps")
		for i := 0; i < n; i++ {
			if rapid.IntRange(0, 99).Draw(t, "isreopen") < 8 {
				c.Steps = append(c.Steps, Step{K: "reopen"})
				continue
			}
			st := Step{K: "tx", Managed: rapid.Bool().Draw(t, "managed")}
			for j, nops := 0, rapid.IntRange(1, 4).Draw(t, "nops"); j < nops; j++ {
				op := genKVWrite(buckets, keys, false).Draw(t, "op")
				if op.K != "del" && rapid.IntRange(0, 3).Draw(t, "longer") == 2 {
					// distinctive multi-byte values so that a damaged value cannot pass for another written one
					op.V = S(fmt.Sprintf("%s#%d.%d~", op.V, i, j))
				}
				st.Ops = append(st.Ops, op)
			}
			c.Steps = append(c.Steps, st)
		}
		cor := corruption{
			Kind: rapid.SampledFrom([]string{"flip", "flip", "flip", "flip", "cut", "zero"}).Draw(t, "ckind"),
			File: rapid.IntRange(0, 7).Draw(t, "cfile"),
			// rapid biases integer draws towards the bounds; the sum of three draws spreads the position
			Pos:  (rapid.IntRange(0, 999).Draw(t, "cpos")*7 + rapid.IntRange(0, 999).Draw(t, "cpos2")*3 + rapid.IntRange(0, 999).Draw(t, "cpos3")) % 1000,
			Sub:  rapid.IntRange(0, 7).Draw(t, "csub"),
			Side: rapid.IntRange(0, 3).Draw(t, "cside") == 2,
		}
		c.Extra = map[string]interface{}{"cor": cor}
		return c
	})
}

// writtenLen is the length of the file up to its last non-zero byte.
func writtenLen(b []byte) int {
	n := len(b)
	for n > 0 && b[n-1] == 0 {
		n--
	}
	return n
}

// recordAt walks the records of a data segment and reports which record contains byte pos
// and at which offset inside the record (-1 when the walk cannot tell).
func recordAt(b []byte, pos int) (start, within, size int) {
	off := 0
	for off+42 <= len(b) {
		bs := int(binary.LittleEndian.Uint32(b[off+26 : off+30]))
		ks := int(binary.LittleEndian.Uint32(b[off+12 : off+16]))
		vs := int(binary.LittleEndian.Uint32(b[off+16 : off+20]))
		sz := 42 + bs + ks + vs
		if sz == 42 && allZero(b[off:off+42]) {
			return -1, -1, 0
		}
		if pos < off+sz {
			return off, pos - off, sz
		}
		off += sz
	}
	return -1, -1, 0
}

func runC21API(c Case, st *Stats) error {
	var cor corruption
	b, _ := jsonMarshal(c.Extra["cor"])
	if err := jsonUnmarshal(b, &cor); err != nil {
		return fmt.Errorf("bad case: %v", err)
	}
	dir := newDir("c21a")
	defer os.RemoveAll(dir)
	h, err := OpenDB(dir, c.Cfg)
	if err != nil {
		return fmt.Errorf("open of an empty directory failed: %v", err)
	}
	// written[bucket][key] = set of values the history ever put there
	written := map[string]map[string]map[string]bool{}
	for i, s := range c.Steps {
		switch s.K {
		case "tx":
			tr := h.RunTx(s, true, nil)
			if tr.Panic != "" || tr.BeginErr != nil || tr.CommitErr != nil {
				h.Close()
				return fmt.Errorf("step %d: transaction failed: panic=%q begin=%v commit=%v", i, tr.Panic, tr.BeginErr, tr.CommitErr)
			}
			for j, op := range s.Ops {
				if op.K == "del" || tr.Res[j].Err {
					continue
				}
				bk := string(op.B)
				if written[bk] == nil {
					written[bk] = map[string]map[string]bool{}
				}
				if written[bk][string(op.Key)] == nil {
					written[bk][string(op.Key)] = map[string]bool{}
				}
				written[bk][string(op.Key)][string(op.V)] = true
			}
		case "reopen":
			if err := h.Reopen(); err != nil {
				return fmt.Errorf("step %d: reopen failed: %v", i, err)
			}
		}
	}
	if err := h.Close(); err != nil {
		return fmt.Errorf("close failed: %v", err)
	}
	// choose the victim file
	var cands []string
	_ = filepath.Walk(dir, func(p string, info os.FileInfo, err error) error {
		if err != nil || info.IsDir() {
			return nil
		}
		isDat := strings.HasSuffix(p, ".dat")
		isSide := strings.HasSuffix(p, ".bptridx") || strings.HasSuffix(p, ".meta")
		if (isDat && !(cor.Side && c.Cfg.Mode == 2)) || (isSide && cor.Side && c.Cfg.Mode == 2) {
			cands = append(cands, p)
		}
		return nil
	})
	sort.Strings(cands)
	if len(cands) == 0 {
		_ = filepath.Walk(dir, func(p string, info os.FileInfo, err error) error {
			if err == nil && !info.IsDir() && strings.HasSuffix(p, ".dat") {
				cands = append(cands, p)
			}
			return nil
		})
		sort.Strings(cands)
	}
	if len(cands) == 0 {
		st.evalFast(c, false, "no-file")
		return nil
	}
	victim := cands[cor.File%len(cands)]
	data, err := os.ReadFile(victim)
	if err != nil {
		return fmt.Errorf("read %s: %v", victim, err)
	}
	wl := writtenLen(data)
	if wl == 0 {
		st.evalFast(c, false, "empty-file")
		return nil
	}
	pos := cor.Pos * wl / 1000
	where := "side-file"
	classes := []string{"kind-" + cor.Kind, fmt.Sprintf("mode%d", c.Cfg.Mode)}
	if strings.HasSuffix(victim, ".dat") {
		start, within, size := recordAt(data, pos)
		switch {
		case start < 0:
			where = "outside-records"
		case within < 4:
			where = "crc"
		case within < 42:
			where = "header"
			// the top byte of a size field would make the reader allocate up to 4 GiB: use the field's low byte
			if cor.Kind == "flip" && (within == 15 || within == 19 || within == 29) {
				pos -= 3
				classes = append(classes, "size-field-top-byte-redirected")
			}
		default:
			where = "payload"
		}
		_ = size
	}
	classes = append(classes, "hit-"+where)
	switch cor.Kind {
	case "flip":
		data[pos] ^= 1 << uint(cor.Sub)
	case "cut":
		data = data[:pos]
	case "zero":
		for i := pos; i < len(data); i++ {
			data[i] = 0
		}
	}
	if err := os.WriteFile(victim, data, 0o644); err != nil {
		return fmt.Errorf("write %s: %v", victim, err)
	}
	desc := fmt.Sprintf("%s at byte %d (bit %d) of %s (%s)", cor.Kind, pos, cor.Sub, filepath.Base(victim), where)
	h2, err := OpenDB(dir, c.Cfg)
	if err != nil {
		if strings.HasPrefix(err.Error(), "PANIC") {
			// a reader panic is C20's business; here it means the damage was not served
			classes = append(classes, "open-panicked")
		}
		st.evalFast(c, false, append(classes, "open-refused")...)
		return nil
	}
	defer h2.Close()
	u := UniverseOf(c)
	var ops []Op
	for _, bk := range u.KVB {
		ops = append(ops, Op{K: "getall", B: S(bk)})
		for _, k := range u.KVK[bk] {
			ops = append(ops, Op{K: "get", B: S(bk), Key: S(k)})
		}
		ops = append(ops, Op{K: "prefixscan", B: S(bk), Key: "", Lim: -1})
		ops = append(ops, Op{K: "rangescan", B: S(bk), Key: "", Key2: "\xff\xff\xff\xff"})
	}
	tr := h2.RunTx(Step{K: "view", Ops: ops}, false, nil)
	served := 0
	for i, r := range tr.Res {
		if r.Err || r.Panic != "" || r.Kind != "items" {
			continue
		}
		op := ops[i]
		for _, it := range r.Items {
			served++
			if op.K == "get" {
				ok := false
				for v := range written[string(op.B)][string(op.Key)] {
					if q(v) == it || kvItemStr(string(op.Key), v) == it {
						ok = true
					}
				}
				if !ok {
					return fmt.Errorf("after %s: Get(%q,%q) returned %s, which the history never wrote under that key (written: %v)", desc, op.B, op.Key, it, setKeys(written[string(op.B)][string(op.Key)]))
				}
				continue
			}
			ok := false
			for k, vs := range written[string(op.B)] {
				for v := range vs {
					if kvItemStr(k, v) == it {
						ok = true
					}
				}
			}
			if !ok {
				return fmt.Errorf("after %s: %s of bucket %q returned the pair %s, which the history never wrote", desc, op.K, op.B, it)
			}
		}
	}
	classes = append(classes, "opened")
	if tr.Panic != "" {
		classes = append(classes, "read-panicked")
	}
	// non-trivial: the database opened on the damaged directory and served data
	st.evalFast(c, served > 0 && where != "outside-records", classes...)
	return nil
}

func setKeys(m map[string]bool) []string {
	var out []string
	for k := range m {
		out = append(out, q(k))
	}
	sort.Strings(out)
	return out
}

func init() { register("C21API", runC21API) }

func TestC21API(t *testing.T) {
	runProperty(t, "C21API", genC21APICase(), runC21API)
}
