package props

import (
	"fmt"
	"os"
	"strings"
	"testing"

	"pgregory.net/rapid"
)

// C03 — paginated scans page through live keys. For each generated history all
// (prefix, offset, limit) pages are enumerated.

func genC03() *rapid.Generator[Case] {
	return rapid.Custom(func(t *rapid.T) Case {
		c := Case{Cfg: genConfig([]int{0, 1, 2}, []int64{200, 333, 1024, 8192}).Draw(t, "cfg")}
		bucket := "b"
		keys := genKeys([]byte{'a', 'b', 'c'}, 3, 8, 3).Draw(t, "keys")
		maxOps := 4
		if rapid.IntRange(0, 9).Draw(t, "widekeys") == 4 {
			// more than 7 keys: the bucket's B+ tree has several leaves, pages cross leaf boundaries
			keys = genKeys([]byte{'a', 'b', 'c'}, 9, 18, 3).Draw(t, "keys")
			maxOps = 8
		}
		n := rapid.IntRange(1, 14).Draw(t, "nsteps")
		var clk *clockGen
		if rapid.IntRange(0, 9).Draw(t, "clocked") < 3 {
			// virtual clock: keys expire between the writes and the paging, some exactly at the paging instant
			clk = &clockGen{Now: clockBase + int64(rapid.IntRange(0, 1000).Draw(t, "clock0"))}
			c.Steps = append(c.Steps, Step{K: "clock", T: clk.Now})
		}
		for i := 0; i < n; i++ {
			if clk != nil && rapid.IntRange(0, 5).Draw(t, "isclock") == 3 {
				c.Steps = append(c.Steps, clk.step(t))
			}
			nops := rapid.IntRange(1, maxOps).Draw(t, "nops")
			st := Step{K: "tx"}
			for j := 0; j < nops; j++ {
				st.Ops = append(st.Ops, genKVWriteClocked([]string{bucket}, keys, false, clk).Draw(t, "op"))
			}
			c.Steps = append(c.Steps, st)
			if rapid.IntRange(0, 9).Draw(t, "reopen") == 0 {
				c.Steps = append(c.Steps, Step{K: "reopen"})
			}
			if c.Cfg.Mode != 2 && rapid.IntRange(0, 11).Draw(t, "merge") == 5 {
				c.Steps = append(c.Steps, Step{K: "merge"})
				if clk != nil && len(clk.Exp) > 0 && rapid.Bool().Draw(t, "expireall") {
					// after the Merge the clock passes every expiry instant stamped so far: what Merge rewrote expires
					// when the original record would have
					far := clk.Now
					for _, x := range clk.Exp {
						if x > far {
							far = x
						}
					}
					clk.Now = far + 1
					c.Steps = append(c.Steps, Step{K: "clock", T: clk.Now})
				}
			}
			if rapid.IntRange(0, 9).Draw(t, "wipe") == 6 {
				// every key of the universe deleted in one transaction (the bucket's count of valid keys reaches 0),
				// often followed by a Merge; later steps put the same keys again
				wipe := Step{K: "tx"}
				for _, k := range keys {
					wipe.Ops = append(wipe.Ops, Op{K: "del", B: S(bucket), Key: S(k)})
				}
				c.Steps = append(c.Steps, wipe)
				if c.Cfg.Mode != 2 && rapid.Bool().Draw(t, "wipemerge") {
					c.Steps = append(c.Steps, Step{K: "merge"})
				}
			}
		}
		c.Extra = map[string]interface{}{"re": rapid.SampledFrom([]string{".*", "^a", "b$", "[ab]+", "^.$"}).Draw(t, "re")}
		return c
	})
}

func runC03(c Case, st *Stats) error {
	if c.Cfg.Mode == 2 && Known("c03-sparse-pagination") {
		st.Exclude("c03-sparse-pagination")
		c.Cfg.Mode = 1
	}
	dir := newDir("c03")
	defer os.RemoveAll(dir)
	h, err := OpenDB(dir, c.Cfg)
	if err != nil {
		return fmt.Errorf("open failed: %v", err)
	}
	defer func() { h.Close() }()
	m := NewModel()
	written := map[string]bool{}
	for i, s := range c.Steps {
		switch s.K {
		case "tx":
			tr := h.RunTx(s, true, nil)
			if tr.Panic != "" || tr.CommitErr != nil || tr.BeginErr != nil {
				return fmt.Errorf("step %d: transaction failed: %s %v", i, tr.Panic, tr.CommitErr)
			}
			for j, r := range tr.Res {
				o, err := pickOutcome(m, s.Ops[j], r)
				if err != nil {
					return fmt.Errorf("step %d: %v", i, err)
				}
				if o.Do != nil {
					o.Do(m)
				}
				written[string(s.Ops[j].Key)] = true
			}
		case "merge":
			if err := h.Merge(); err == nil {
				st.Class("successful-merges", 1)
			}
			if h.Dead {
				return fmt.Errorf("step %d: Merge panicked", i)
			}
		case "reopen":
			if err := h.Reopen(); err != nil {
				return fmt.Errorf("step %d: reopen failed: %v", i, err)
			}
		case "clock":
			if virtualClock != 0 {
				if e, _ := clockEffect(m, virtualClock, s.T); e > 0 {
					st.Class("pair-expired-while-the-case-ran", 1)
				}
			}
			setClock(s.T)
		}
	}
	if virtualClock != 0 {
		if _, b := clockEffect(m, virtualClock, virtualClock); b > 0 {
			st.Class("paged-at-or-one-second-before-an-expiry-instant", 1)
		}
	}
	var keys []string
	for k := range written {
		keys = append(keys, k)
	}
	re, _ := c.Extra["re"].(string)
	if re == "" {
		re = ".*"
	}
	bucket := S("b")
	pages := 0
	deadBeforeLive := false
	for _, p := range prefixesOf(keys) {
		n := 0
		sawDead := false
		for k := range written {
			if strings.HasPrefix(k, p) {
				n++
			}
		}
		// dead key preceding a live one under this prefix
		var all []string
		for k := range written {
			if strings.HasPrefix(k, p) {
				all = append(all, k)
			}
		}
		sortStrings(all)
		for _, k := range all {
			it, ok := m.KV["b"][k]
			live := ok && it.live()
			if !live {
				sawDead = true
			} else if sawDead {
				deadBeforeLive = true
			}
		}
		var ops []Op
		for off := 0; off <= n+1; off++ {
			lims := []int{-1}
			for l := 1; l <= n+1; l++ {
				lims = append(lims, l)
			}
			for _, l := range lims {
				ops = append(ops, Op{K: "prefixscan", B: bucket, Key: S(p), I: off, Lim: l})
			}
		}
		for l := -1; l <= n+1; l++ {
			if l == 0 {
				continue
			}
			ops = append(ops, Op{K: "prefixsearchscan", B: bucket, Key: S(p), Re: re, I: 0, Lim: l})
		}
		pages += len(ops)
		if err := checkReads(h, m, ops, fmt.Sprintf("pages of prefix %q", p)); err != nil {
			return err
		}
	}
	st.Sub(pages)
	classes := []string{fmt.Sprintf("mode%d", c.Cfg.Mode)}
	if deadBeforeLive {
		classes = append(classes, "dead-key-before-live-key")
	}
	st.Eval(c.JSON(), deadBeforeLive, classes...)
	return nil
}

func sortStrings(s []string) {
	for i := 1; i < len(s); i++ {
		for j := i; j > 0 && s[j] < s[j-1]; j-- {
			s[j], s[j-1] = s[j-1], s[j]
		}
	}
}

func init() { register("C03", runC03) }

func TestC03(t *testing.T) { runProperty(t, "C03", genC03(), runC03) }
