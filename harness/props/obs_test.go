package props

import (
	"fmt"
	"sort"
	"strings"
)

// Universe is the set of names a case touches; Obs reads all of them.
type Universe struct {
	KVB, LB, SB, ZB []string            // bucket names per structure
	KVK             map[string][]string // bucket -> keys
	LK, SK          map[string][]string
	ZK              map[string][]string
}

func addU(m map[string][]string, b, k string) {
	for _, x := range m[b] {
		if x == k {
			return
		}
	}
	m[b] = append(m[b], k)
}

func structOf(k string) string {
	switch {
	case k == "put" || k == "putts" || k == "putbig" || k == "del" || k == "get" || k == "getall" || k == "rangescan" || strings.HasPrefix(k, "prefix"):
		return "kv"
	case k[0] == 'l' || k[0] == 'r':
		return "l"
	case k[0] == 's':
		return "s"
	case k[0] == 'z':
		return "z"
	}
	return ""
}

// UniverseOf collects every bucket/key a case names, plus one never-written bucket.
func UniverseOf(c Case) *Universe {
	u := &Universe{KVK: map[string][]string{}, LK: map[string][]string{}, SK: map[string][]string{}, ZK: map[string][]string{}}
	for _, st := range c.Steps {
		for _, op := range st.Ops {
			b := string(op.B)
			switch structOf(op.K) {
			case "kv":
				addU(u.KVK, b, string(op.Key))
			case "l":
				addU(u.LK, b, string(op.Key))
			case "s":
				addU(u.SK, b, string(op.Key))
				if op.Key2 != "" || strings.HasPrefix(op.K, "smove") || strings.HasPrefix(op.K, "sdiff") || strings.HasPrefix(op.K, "sunion") {
					b2 := b
					if strings.HasSuffix(op.K, "2") {
						b2 = string(op.B2)
					}
					addU(u.SK, b2, string(op.Key2))
				}
			case "z":
				addU(u.ZK, b, string(op.Key))
			}
		}
	}
	const ghost = "never"
	for _, m := range []map[string][]string{u.KVK, u.LK, u.SK, u.ZK} {
		if _, ok := m[ghost]; !ok {
			m[ghost] = []string{"a"}
		}
	}
	ks := func(m map[string][]string) []string {
		var out []string
		for b := range m {
			out = append(out, b)
			sort.Strings(m[b])
		}
		sort.Strings(out)
		return out
	}
	u.KVB, u.LB, u.SB, u.ZB = ks(u.KVK), ks(u.LK), ks(u.SK), ks(u.ZK)
	return u
}

// Observation is a canonical full read of the database.
type Observation struct {
	Lines []string
	Panic string
	Err   string
}

func (o *Observation) String() string { return strings.Join(o.Lines, "\n") }

func (o *Observation) Map() map[string]string {
	m := map[string]string{}
	for _, l := range o.Lines {
		i := strings.Index(l, " => ")
		m[l[:i]] = l[i+4:]
	}
	return m
}

// soft turns "error" and "empty" into the same observation for reads whose
// not-found case is reported as an error.
func soft(r Res) string {
	if r.Panic != "" {
		return r.String()
	}
	if r.Err || (r.Kind == "items" && len(r.Items) == 0) {
		return "NONE"
	}
	if r.Kind == "n" && r.N == 0 {
		return "NONE"
	}
	if r.Kind == "b" && !r.B {
		return "NONE" // "no such key" may be reported as false or as an error
	}
	return r.String()
}

// ObsOpts selects which structures are observed.
type ObsOpts struct {
	KV, Structs bool
	KVScans     bool // include RangeScan/PrefixScan lines
	NoGetAll    bool
	NoExpiry    bool // leave out the expiry instant of every live pair
	// NoSetKeyExistence leaves SHasKey out (recorded finding c15-merge-forgets-emptied-set-keys)
	NoSetKeyExistence bool
	// Strict: record every result exactly (error vs empty vs zero are different observations). Only for
	// oracles that compare the implementation with itself at two moments (before Close / after Open).
	Strict bool
}

// Observe performs the full observation in one read-only transaction.
func Observe(h *DBH, u *Universe, oo ObsOpts) *Observation {
	o := &Observation{}
	var ops []Op
	var labels []string
	add := func(label string, op Op) { labels = append(labels, label); ops = append(ops, op) }
	if oo.KV {
		for _, b := range u.KVB {
			if !oo.NoGetAll {
				add(fmt.Sprintf("kv %q getall", b), Op{K: "getall", B: S(b)})
			}
			for _, k := range u.KVK[b] {
				add(fmt.Sprintf("kv %q get %q", b, k), Op{K: "get", B: S(b), Key: S(k)})
				if !oo.NoExpiry {
					add(fmt.Sprintf("kv %q expiry %q", b, k), Op{K: "expiry", B: S(b), Key: S(k)})
				}
			}
			if oo.KVScans {
				add(fmt.Sprintf("kv %q prefixscan \"\"", b), Op{K: "prefixscan", B: S(b), Key: "", I: 0, Lim: -1})
				ks := u.KVK[b]
				if len(ks) > 0 {
					add(fmt.Sprintf("kv %q rangescan all", b), Op{K: "rangescan", B: S(b), Key: S(ks[0]), Key2: S(ks[len(ks)-1])})
				}
			}
		}
	}
	if oo.Structs {
		for _, b := range u.LB {
			for _, k := range u.LK[b] {
				add(fmt.Sprintf("l %q %q lrange", b, k), Op{K: "lrange", B: S(b), Key: S(k), I: 0, J: -1})
				add(fmt.Sprintf("l %q %q lsize", b, k), Op{K: "lsize", B: S(b), Key: S(k)})
				add(fmt.Sprintf("l %q %q lpeek", b, k), Op{K: "lpeek", B: S(b), Key: S(k)})
				add(fmt.Sprintf("l %q %q rpeek", b, k), Op{K: "rpeek", B: S(b), Key: S(k)})
			}
		}
		for _, b := range u.SB {
			for _, k := range u.SK[b] {
				add(fmt.Sprintf("s %q %q smembers", b, k), Op{K: "smembers", B: S(b), Key: S(k)})
				add(fmt.Sprintf("s %q %q scard", b, k), Op{K: "scard", B: S(b), Key: S(k)})
				if !oo.NoSetKeyExistence {
					add(fmt.Sprintf("s %q %q shaskey", b, k), Op{K: "shaskey", B: S(b), Key: S(k)})
				}
			}
		}
		for _, b := range u.ZB {
			add(fmt.Sprintf("z %q zmembers", b), Op{K: "zmembers", B: S(b)})
			add(fmt.Sprintf("z %q zcard", b), Op{K: "zcard", B: S(b)})
			add(fmt.Sprintf("z %q zrangebyrank", b), Op{K: "zrangebyrank", B: S(b), I: 1, J: -1})
			add(fmt.Sprintf("z %q zpeekmax", b), Op{K: "zpeekmax", B: S(b)})
			for _, k := range u.ZK[b] {
				add(fmt.Sprintf("z %q zrank %q", b, k), Op{K: "zrank", B: S(b), Key: S(k)})
			}
		}
	}
	tr := h.RunTx(Step{K: "view", Ops: ops}, false, nil)
	if tr.Panic != "" {
		o.Panic = tr.Panic
		return o
	}
	if tr.BeginErr != nil {
		o.Err = tr.BeginErr.Error()
		return o
	}
	for i, r := range tr.Res {
		if r.Panic != "" && o.Panic == "" {
			o.Panic = r.Panic
		}
		if oo.Strict {
			o.Lines = append(o.Lines, labels[i]+" => "+r.String())
		} else {
			o.Lines = append(o.Lines, labels[i]+" => "+soft(r))
		}
	}
	return o
}

// DiffObs returns a description of the first differences, or "".
func DiffObs(a, b *Observation) string {
	if a.Panic != "" || b.Panic != "" {
		if a.Panic != b.Panic {
			return fmt.Sprintf("panic: %q vs %q", a.Panic, b.Panic)
		}
	}
	if a.Err != b.Err {
		return fmt.Sprintf("err: %q vs %q", a.Err, b.Err)
	}
	ma, mb := a.Map(), b.Map()
	var keys []string
	for k := range ma {
		keys = append(keys, k)
	}
	for k := range mb {
		if _, ok := ma[k]; !ok {
			keys = append(keys, k)
		}
	}
	sort.Strings(keys)
	var diffs []string
	for _, k := range keys {
		if ma[k] != mb[k] {
			diffs = append(diffs, fmt.Sprintf("%s: %s  VS  %s", k, ma[k], mb[k]))
			if len(diffs) >= 4 {
				break
			}
		}
	}
	return strings.Join(diffs, "; ")
}
