package props

import (
	"fmt"
	"math/rand"
	"os"

	"pgregory.net/rapid"
)

// Shared E1 runner for list / set / sorted-set histories through transactions:
// one API call per transaction (so that C13's in-transaction visibility does not
// interfere), compared with the reference model call by call, plus a full read
// of the touched structures after every step and after every reopen.

func structBattery(u *Universe) []Op {
	var ops []Op
	for _, b := range u.LB {
		for _, k := range u.LK[b] {
			ops = append(ops, Op{K: "lrange", B: S(b), Key: S(k), I: 0, J: -1}, Op{K: "lsize", B: S(b), Key: S(k)},
				Op{K: "lpeek", B: S(b), Key: S(k)}, Op{K: "rpeek", B: S(b), Key: S(k)})
		}
	}
	for _, b := range u.SB {
		for _, k := range u.SK[b] {
			ops = append(ops, Op{K: "smembers", B: S(b), Key: S(k)}, Op{K: "scard", B: S(b), Key: S(k)}, Op{K: "shaskey", B: S(b), Key: S(k)})
		}
	}
	for _, b := range u.ZB {
		ops = append(ops, Op{K: "zmembers", B: S(b)}, Op{K: "zcard", B: S(b)}, Op{K: "zrangebyrank", B: S(b), I: 1, J: -1},
			Op{K: "zpeekmin", B: S(b)}, Op{K: "zpeekmax", B: S(b)})
		for _, k := range u.ZK[b] {
			ops = append(ops, Op{K: "zrank", B: S(b), Key: S(k)}, Op{K: "zrevrank", B: S(b), Key: S(k)}, Op{K: "zscore", B: S(b), Key: S(k)})
		}
	}
	return ops
}

// lrangeFullInDomain: LRange(0,-1) on an empty/missing list is out of the exact
// domain, so the battery is tolerant there; on non-empty lists it is exact.

type structRun struct {
	h              *DBH
	m              *Model
	reopens        int
	writes         int
	sawSMoveAbsent bool
}

// runStructCase executes the case; classify is called at the end to record stats.
func runStructCase(c Case, st *Stats, classify func(c Case, sr *structRun) (bool, []string)) error {
	rand.Seed(c.Seed)
	dir := newDir("st")
	defer os.RemoveAll(dir)
	h, err := OpenDB(dir, c.Cfg)
	if err != nil {
		return fmt.Errorf("open of an empty directory failed: %v", err)
	}
	defer func() { h.Close() }()
	m := NewModel()
	u := UniverseOf(c)
	battery := structBattery(u)
	sr := &structRun{h: h, m: m}
	for i, s := range c.Steps {
		switch s.K {
		case "tx":
			writable := false
			for _, op := range s.Ops {
				if isWrite(op.K) {
					writable = true
				}
			}
			s = resolveRanks(m, s)
			tr := h.RunTx(s, writable, nil)
			if tr.Panic != "" || tr.BeginErr != nil {
				return fmt.Errorf("step %d: transaction panicked/failed to begin: %q %v", i, tr.Panic, tr.BeginErr)
			}
			var effects []func(*Model)
			for j, r := range tr.Res {
				o, err := pickOutcome(m, s.Ops[j], r)
				if err != nil {
					return fmt.Errorf("step %d: %v", i, err)
				}
				if o.Note == "smove-absent-adds" {
					sr.sawSMoveAbsent = true
				}
				if o.Do != nil {
					effects = append(effects, o.Do)
				}
			}
			if tr.CommitErr != nil {
				return fmt.Errorf("step %d: commit failed: %v", i, tr.CommitErr)
			}
			for _, do := range effects {
				do(m)
			}
			if writable {
				sr.writes++
			}
		case "reopen":
			if err := h.Reopen(); err != nil {
				return fmt.Errorf("step %d: reopen failed: %v", i, err)
			}
			sr.reopens++
		}
		if err := checkReads(h, m, battery, fmt.Sprintf("after step %d (%s %s)", i, s.K, opNames(s))); err != nil {
			return err
		}
	}
	nt, classes := classify(c, sr)
	st.Eval(c.JSON(), nt, classes...)
	return nil
}

func opNames(s Step) string {
	out := ""
	for _, o := range s.Ops {
		out += o.K + " "
	}
	return out
}

func genStructCfg() *rapid.Generator[Config] {
	return genConfig([]int{0}, []int64{200, 1024, 8192})
}

// genStructHistory builds a history from a per-step op generator.
func genStructHistory(maxSteps int, reopenPct int, genOp func(t *rapid.T) Op) *rapid.Generator[Case] {
	return rapid.Custom(func(t *rapid.T) Case {
		c := Case{Cfg: genStructCfg().Draw(t, "cfg"), Seed: int64(rapid.IntRange(1, 1<<20).Draw(t, "rseed"))}
		n := rapid.IntRange(1, maxSteps).Draw(t, "nsteps")
		for i := 0; i < n; i++ {
			if rapid.IntRange(0, 99).Draw(t, "isreopen") < reopenPct {
				c.Steps = append(c.Steps, Step{K: "reopen"})
				continue
			}
			c.Steps = append(c.Steps, Step{K: "tx", Managed: rapid.Bool().Draw(t, "managed"), Ops: []Op{genOp(t)}})
		}
		return c
	})
}

// resolveRanks maps the ranks of a mutating ZRemRangeByRank into the documented
// domain (1..n or -n..-1) of the current sorted set: rank 0 and ranks beyond the
// size are unspecified for a mutating call, so they are not generated.
func resolveRanks(m *Model, st Step) Step {
	var ops []Op
	for i, op := range st.Ops {
		if op.K != "zremrangebyrank" {
			continue
		}
		n := len(m.Z[string(op.B)])
		if n == 0 {
			continue
		}
		fix := func(x int) int {
			if x == 0 {
				return 1
			}
			if x > 0 {
				return (x-1)%n + 1
			}
			return -((-x-1)%n + 1)
		}
		if ops == nil {
			ops = append([]Op(nil), st.Ops...)
		}
		ops[i].I, ops[i].J = fix(op.I), fix(op.J)
	}
	if ops != nil {
		st.Ops = ops
	}
	return st
}
