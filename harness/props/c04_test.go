package props

import (
	"fmt"
	"math/rand"
	"os"
	"strings"
	"testing"
)

// C04 — buckets are isolated namespaces.
// Oracle A (metamorphic): a write transaction that names the (structure,bucket)
// set W leaves the observation of every other (structure,bucket) unchanged.
// Oracle B: the reference model, which keeps buckets in separate maps.

// hasPrefixPair reports whether one bucket name is a prefix of another.
func hasPrefixPair(buckets []string) bool {
	for i, a := range buckets {
		for j, b := range buckets {
			if i != j && strings.HasPrefix(b, a) {
				return true
			}
		}
	}
	return false
}

func bucketsOf(c Case) []string {
	seen := map[string]bool{}
	var out []string
	for _, s := range c.Steps {
		for _, op := range s.Ops {
			for _, b := range []string{string(op.B)} {
				if !seen[b] {
					seen[b] = true
					out = append(out, b)
				}
			}
			if op.K == "smove2" || op.K == "sdiff2" || op.K == "sunion2" {
				if !seen[string(op.B2)] {
					seen[string(op.B2)] = true
					out = append(out, string(op.B2))
				}
			}
		}
	}
	return out
}

// lineOwner extracts "struct\x00bucket" from an observation label such as `kv "b" get "k"`.
func lineOwner(label string) string {
	sp := strings.SplitN(label, " ", 3)
	if len(sp) < 2 {
		return ""
	}
	s := sp[0]
	// bucket is a Go-quoted string starting at sp[1]; find its end
	rest := label[len(s)+1:]
	end := 1
	for end < len(rest) {
		if rest[end] == '\\' {
			end += 2
			continue
		}
		if rest[end] == '"' {
			break
		}
		end++
	}
	bq := rest[:end+1]
	return s + "\x00" + bq
}

func runC04(c Case, st *Stats) error {
	rand.Seed(c.Seed)
	buckets := bucketsOf(c)
	if c.Cfg.Mode == 2 && hasPrefixPair(append(buckets, "never")) && Known("c04-sparse-bucket-key-concatenation") {
		// known finding: construct around it by running the same history in KeyOnly mode
		st.Exclude("c04-sparse-bucket-key-concatenation")
		c.Cfg.Mode = 1
	}
	dir := newDir("c04")
	defer os.RemoveAll(dir)
	h, err := OpenDB(dir, c.Cfg)
	if err != nil {
		return fmt.Errorf("open of an empty directory failed: %v", err)
	}
	defer func() { h.Close() }()
	u := UniverseOf(c)
	oo := obsFor(c.Cfg)
	m := NewModel()
	battery := append(kvBattery(c, false), structBattery(u)...)
	if c.Cfg.Mode != 0 {
		battery = kvBattery(c, false)
	}
	prev := Observe(h, u, oo)
	for i, s := range c.Steps {
		switch s.K {
		case "tx":
			s = resolveRanks(m, s)
			tr := h.RunTx(s, true, nil)
			if tr.Panic != "" || tr.BeginErr != nil {
				return fmt.Errorf("step %d: transaction panicked: %s %v", i, tr.Panic, tr.BeginErr)
			}
			var effects []func(*Model)
			for j, r := range tr.Res {
				o, err := pickOutcome(m, s.Ops[j], r)
				if err != nil {
					return fmt.Errorf("step %d: %v", i, err)
				}
				if o.Do != nil {
					effects = append(effects, o.Do)
				}
			}
			if tr.CommitErr != nil {
				return fmt.Errorf("step %d: commit failed: %v", i, tr.CommitErr)
			}
			for _, do := range effects {
				do(m)
			}
			// oracle A
			cur := Observe(h, u, oo)
			if cur.Panic != "" {
				return fmt.Errorf("step %d: observation panicked: %s", i, cur.Panic)
			}
			w := writesOf(s)
			owners := map[string]bool{}
			for k := range w {
				sp := strings.SplitN(k, "\x00", 2)
				owners[sp[0]+"\x00"+fmt.Sprintf("%q", sp[1])] = true
			}
			pm, cm := prev.Map(), cur.Map()
			for label, v := range pm {
				if owners[lineOwner(label)] {
					continue
				}
				if cm[label] != v {
					return fmt.Errorf("step %d: a write to %v changed a read of another bucket: %s: %s VS %s", i, keysOf(owners), label, v, cm[label])
				}
			}
			prev = cur
		case "reopen":
			if err := h.Reopen(); err != nil {
				return fmt.Errorf("step %d: reopen failed: %v", i, err)
			}
			prev = Observe(h, u, oo)
		default:
			continue
		}
		// oracle B
		if err := checkReads(h, m, battery, fmt.Sprintf("after step %d (%s)", i, s.K)); err != nil {
			return err
		}
	}
	adversarial := hasPrefixPair(buckets)
	var classes []string
	if adversarial {
		classes = append(classes, "prefix-related-bucket-names")
	}
	for _, b := range buckets {
		if b == "" {
			classes = append(classes, "empty-bucket-name")
		}
	}
	for _, s := range c.Steps {
		if s.K != "tx" || len(s.Ops) < 2 {
			continue
		}
		cat := map[string]string{}
		for _, op := range s.Ops {
			k := string(op.B) + string(op.Key)
			if b, ok := cat[k]; ok && b != string(op.B) {
				classes = append(classes, "one-transaction-writes-coinciding-bucket+key-concatenations")
			}
			cat[k] = string(op.B)
		}
		classes = append(classes, "multi-bucket-transaction")
	}
	classes = append(classes, fmt.Sprintf("mode%d", c.Cfg.Mode))
	st.Eval(c.JSON(), adversarial && len(buckets) >= 2, dedupe(classes)...)
	return nil
}

func keysOf(m map[string]bool) []string {
	var out []string
	for k := range m {
		out = append(out, strings.ReplaceAll(k, "\x00", ":"))
	}
	return out
}

func init() { register("C04", runC04) }

func TestC04(t *testing.T) {
	// single-op-per-structure transactions: one call per transaction for list/set/zset
	// (C13's in-transaction visibility must not interfere), multi-op for KV.
	p := mixedParams{Modes: []int{0, 0, 1, 2}, Segs: []int64{200, 333, 1024}, Buckets: []string{"b", "bb", "b|", "", "ab", "a", "a.b", "b.meta"},
		MinB: 2, MaxB: 3, MaxSteps: 25, MaxOps: 1, ReopenPct: 10, Structs: true, ReadsInTx: true, MultiKV: 5}
	runProperty(t, "C04", genMixedCase(p), runC04)
}
