package props

import (
	"fmt"
	"os"
	"testing"

	"pgregory.net/rapid"
)

// C01 — KV reads match an ordered map with TTL (RAM index modes).

func genKVHistoryCase(modes []int, segs []int64, minB, maxB int, reopenWeight int) *rapid.Generator[Case] {
	return rapid.Custom(func(t *rapid.T) Case {
		c := Case{Cfg: genConfig(modes, segs).Draw(t, "cfg")}
		buckets := genBuckets(minB, maxB).Draw(t, "buckets")
		shape := genKeyShape(t, keyAlphabet, 2, 7, 3, 5, true)
		keys := shape.Keys
		maxSteps := 40
		if shape.Kind == "bulk" {
			maxSteps = 14
			buckets = buckets[:1]
		}
		if rapid.IntRange(0, 7).Draw(t, "treeshape") == 5 {
			// tree-shape case: one bucket, 20-70 keys inserted in a structured order (see genTreeShapeSteps), then a
			// short ordinary history (deletes, expired puts, overwrites) on the same keys
			keys = genKeys(keyAlphabet, 20, 70, 3).Draw(t, "tskeys")
			buckets = buckets[:1]
			if c.Cfg.Seg < 1024 {
				c.Cfg.Seg = 1024
			}
			c.Steps = append(c.Steps, genTreeShapeSteps(t, buckets[0], keys)...)
			maxSteps = 6
			shape.Kind = "bulk"
			c.Extra = map[string]interface{}{"treeshape": true}
		}
		n := rapid.IntRange(1, maxSteps).Draw(t, "nsteps")
		var clk *clockGen
		if rapid.IntRange(0, 9).Draw(t, "clocked") < 3 {
			// virtual clock: records expire while the case runs, reads happen at, just before and just after expiry instants
			clk = &clockGen{Now: clockBase + int64(rapid.IntRange(0, 1000).Draw(t, "clock0"))}
			c.Steps = append(c.Steps, Step{K: "clock", T: clk.Now})
		}
		for i := 0; i < n; i++ {
			if clk != nil && rapid.IntRange(0, 7).Draw(t, "isclock") == 3 {
				c.Steps = append(c.Steps, clk.step(t))
				continue
			}
			if rapid.IntRange(0, 99).Draw(t, "isreopen") < reopenWeight {
				c.Steps = append(c.Steps, Step{K: "reopen"})
				continue
			}
			if c.Cfg.Mode != 2 && rapid.IntRange(0, 24).Draw(t, "ismerge") == 13 {
				// Merge (RAM index modes) must not change what the model says; it fails cleanly with fewer than 2 segments
				c.Steps = append(c.Steps, Step{K: "merge"})
				continue
			}
			nops := rapid.IntRange(1, shape.MaxOps).Draw(t, "nops")
			st := Step{K: "tx", Managed: rapid.Bool().Draw(t, "managed")}
			for j := 0; j < nops; j++ {
				st.Ops = append(st.Ops, genKVWriteClocked(buckets, keys, true, clk).Draw(t, "op"))
			}
			c.Steps = append(c.Steps, st)
		}
		// drawn reads executed after every step, in addition to the systematic battery
		bounds := boundsOf(keys)
		nr := rapid.IntRange(2, 6).Draw(t, "nreads")
		if shape.Kind != "small" {
			nr += 8
		}
		var reads []Op
		for i := 0; i < nr; i++ {
			b := rapid.SampledFrom(buckets).Draw(t, "rb")
			s := rapid.SampledFrom(bounds).Draw(t, "s")
			e := rapid.SampledFrom(bounds).Draw(t, "e")
			if s > e {
				s, e = e, s
			}
			reads = append(reads, Op{K: "rangescan", B: S(b), Key: S(s), Key2: S(e)})
			if rapid.Bool().Draw(t, "withre") {
				p := rapid.SampledFrom(prefixesOf(keys)).Draw(t, "p")
				reads = append(reads, Op{K: "prefixsearchscan", B: S(b), Key: S(p), Re: rapid.SampledFrom(regexps).Draw(t, "re"), Lim: -1})
			}
		}
		c.Steps = append(c.Steps, Step{K: "reads", Ops: reads})
		return c
	})
}

// kvBattery builds the systematic read battery for a case.
func kvBattery(c Case, withSearch bool) []Op {
	u := UniverseOf(c)
	var ops []Op
	for _, b := range u.KVB {
		keys := u.KVK[b]
		ops = append(ops, Op{K: "getall", B: S(b)})
		for _, k := range keys {
			if k == "" {
				continue
			}
			ops = append(ops, Op{K: "get", B: S(b), Key: S(k)})
		}
		ops = append(ops, Op{K: "get", B: S(b), Key: "zz-absent"})
		for _, p := range prefixesOf(keys) {
			ops = append(ops, Op{K: "prefixscan", B: S(b), Key: S(p), Lim: -1})
		}
		ops = append(ops, Op{K: "rangescan", B: S(b), Key: "", Key2: "\xff\xff\xff\xff"})
	}
	for _, st := range c.Steps {
		if st.K == "reads" {
			for _, op := range st.Ops {
				if !withSearch && op.K == "prefixsearchscan" {
					continue
				}
				ops = append(ops, op)
			}
		}
	}
	return ops
}

// checkReads runs ops in one read-only transaction and compares with the model.
func checkReads(h *DBH, m *Model, ops []Op, when string) error {
	tr := h.RunTx(Step{K: "view", Ops: ops, Managed: true}, false, nil)
	if tr.Panic != "" || tr.BeginErr != nil || tr.CommitErr != nil {
		return fmt.Errorf("%s: read transaction failed: panic=%q begin=%v commit=%v", when, tr.Panic, tr.BeginErr, tr.CommitErr)
	}
	for i, r := range tr.Res {
		if err := matchOutcome(m, ops[i], r); err != nil {
			return fmt.Errorf("%s: %v", when, err)
		}
	}
	return nil
}

func matchOutcome(m *Model, op Op, r Res) error {
	_, err := pickOutcome(m, op, r)
	return err
}

func pickOutcome(m *Model, op Op, r Res) (*Outcome, error) {
	outs := m.Outcomes(op)
	for i := range outs {
		if outs[i].matches(r) {
			return &outs[i], nil
		}
	}
	var want []string
	for _, o := range outs {
		if o.Pred != nil {
			want = append(want, "<valid-subset>")
		} else {
			want = append(want, o.R.String())
		}
	}
	return nil, fmt.Errorf("%s returned %s, model allows %v", op, r, want)
}

// kvClasses classifies what a KV history exercised.
type kvClass struct {
	rotations, reopenThenRead, deadInRange, emptyVals, fills, merges int
	expiredByClock, readAtExpiryInstant                              int
}

// clockEffect reports how many pairs of the model are live at time from and no longer at time to, and how many
// expire exactly at to or one second after it (a read at to sits on the boundary of the expiry test).
func clockEffect(m *Model, from, to int64) (expired, boundary int) {
	for _, mm := range m.KV {
		for _, it := range mm {
			e := it.expiry()
			if e == 0 {
				continue
			}
			if uint64(from) < e && e <= uint64(to) {
				expired++
			}
			if e == uint64(to) || e == uint64(to)+1 {
				boundary++
			}
		}
	}
	return
}

func runKVModelCase(c Case, st *Stats, withSearch bool) error {
	dir := newDir("kv")
	defer os.RemoveAll(dir)
	h, err := OpenDB(dir, c.Cfg)
	if err != nil {
		return fmt.Errorf("open of an empty directory failed: %v", err)
	}
	defer func() { h.Close() }()
	m := NewModel()
	battery := kvBattery(c, withSearch)
	var cl kvClass
	wrote := map[string]bool{}
	for i, s := range c.Steps {
		switch s.K {
		case "tx":
			s = resolveFills(h, s)
			for _, op := range s.Ops {
				if op.Fill {
					cl.fills++
				}
				if op.V == "" && op.K != "del" {
					cl.emptyVals++
				}
			}
			tr := h.RunTx(s, true, nil)
			if tr.Panic != "" || tr.BeginErr != nil {
				return fmt.Errorf("step %d: transaction panicked/failed to begin: %q %v", i, tr.Panic, tr.BeginErr)
			}
			var effects []func(*Model)
			for j, r := range tr.Res {
				o, err := pickOutcome(m, s.Ops[j], r)
				if err != nil {
					return fmt.Errorf("step %d: %v", i, err)
				}
				if o.Do != nil {
					effects = append(effects, o.Do)
				}
			}
			if tr.CommitErr != nil {
				return fmt.Errorf("step %d: commit of in-range entries failed: %v", i, tr.CommitErr)
			}
			for _, do := range effects {
				do(m)
			}
			for _, op := range s.Ops {
				wrote[string(op.B)] = true
			}
		case "merge":
			before := datFiles(dir)
			if err := h.Merge(); err == nil && before >= 2 {
				cl.merges++
			}
			if h.Dead {
				return fmt.Errorf("step %d: Merge panicked", i)
			}
		case "reopen":
			if err := h.Reopen(); err != nil {
				return fmt.Errorf("step %d: reopen failed: %v", i, err)
			}
			cl.reopenThenRead++
		case "clock":
			if virtualClock != 0 {
				e, b := clockEffect(m, virtualClock, s.T)
				cl.expiredByClock += e
				cl.readAtExpiryInstant += b
			}
			setClock(s.T)
		case "reads":
			continue
		}
		if err := checkReads(h, m, battery, fmt.Sprintf("after step %d (%s)", i, s.K)); err != nil {
			return err
		}
	}
	// classification
	cl.rotations = datFiles(dir) - 1
	for b, mm := range m.KV {
		live, dead := 0, 0
		for _, it := range mm {
			if it.live() {
				live++
			} else {
				dead++
			}
		}
		_ = b
		if live > 0 && dead > 0 {
			cl.deadInRange++
		}
	}
	nontrivial := cl.rotations >= 1 && (cl.deadInRange > 0 || hasDeleteOfLive(c))
	var classes []string
	if cl.rotations >= 1 {
		classes = append(classes, "rotation")
	}
	if cl.reopenThenRead > 0 {
		classes = append(classes, "reopen-then-read")
	}
	if cl.merges > 0 {
		classes = append(classes, "successful-merge-in-history")
	}
	if cl.deadInRange > 0 {
		classes = append(classes, "expired-next-to-live")
	}
	if cl.emptyVals > 0 {
		classes = append(classes, "empty-value")
	}
	if virtualClock != 0 {
		classes = append(classes, "virtual-clock")
	}
	if cl.expiredByClock > 0 {
		classes = append(classes, "pair-expired-while-the-case-ran")
	}
	if cl.readAtExpiryInstant > 0 {
		classes = append(classes, "read-at-or-one-second-before-an-expiry-instant")
	}
	if cl.fills > 0 {
		classes = append(classes, "exact-fill")
	}
	maxKeys := 0
	for _, mm := range m.KV {
		if len(mm) > maxKeys {
			maxKeys = len(mm)
		}
	}
	if maxKeys > 7 {
		classes = append(classes, "bucket-with-multi-leaf-tree")
	}
	if maxKeys > 40 {
		classes = append(classes, "bucket-with-multi-level-tree")
	}
	if c.Extra["treeshape"] != nil {
		classes = append(classes, "tree-shape-insertion-order")
	}
	classes = append(classes, fmt.Sprintf("mode%d-rw%d", c.Cfg.Mode, c.Cfg.RW))
	st.Eval(c.JSON(), nontrivial, classes...)
	return nil
}

func hasDeleteOfLive(c Case) bool {
	put := map[string]bool{}
	for _, s := range c.Steps {
		if s.K != "tx" {
			continue
		}
		for _, op := range s.Ops {
			k := string(op.B) + "\x01" + string(op.Key)
			if op.K == "del" && put[k] {
				return true
			}
			if op.K == "put" || op.K == "putts" {
				put[k] = true
			}
		}
	}
	return false
}

func runC01(c Case, st *Stats) error { return runKVModelCase(c, st, true) }

func init() { register("C01", runC01) }

func TestC01(t *testing.T) {
	runProperty(t, "C01", genKVHistoryCase([]int{0, 1}, segSizes, 2, 3, 12), runC01)
}
