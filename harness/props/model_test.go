package props

import (
	"bytes"
	"fmt"
	"regexp"
	"sort"
	"strconv"
	"strings"
	"time"

	"github.com/xujiajun/nutsdb"
)

// Res is the canonical observable result of one API call.
type Res struct {
	Err   bool     `json:"err,omitempty"`
	Panic string   `json:"panic,omitempty"`
	Kind  string   `json:"kind,omitempty"` // "", items, n, b, f
	Items []string `json:"items,omitempty"`
	N     int      `json:"n,omitempty"`
	B     bool     `json:"b,omitempty"`
	F     float64  `json:"f,omitempty"`
}

func (r Res) String() string {
	if r.Panic != "" {
		return "PANIC(" + r.Panic + ")"
	}
	if r.Err {
		return "ERR"
	}
	switch r.Kind {
	case "items":
		return "[" + strings.Join(r.Items, " ") + "]"
	case "n":
		return "n=" + strconv.Itoa(r.N)
	case "b":
		return "b=" + strconv.FormatBool(r.B)
	case "f":
		return "f=" + strconv.FormatFloat(r.F, 'g', -1, 64)
	}
	return "ok"
}

func rErr() Res              { return Res{Err: true} }
func rOK() Res               { return Res{} }
func rItems(it []string) Res { return Res{Kind: "items", Items: it} }
func rV(v string) Res        { return Res{Kind: "items", Items: []string{v}} }
func rN(n int) Res           { return Res{Kind: "n", N: n} }
func rB(b bool) Res          { return Res{Kind: "b", B: b} }
func rF(f float64) Res       { return Res{Kind: "f", F: f} }

func q(s string) string { return strconv.Quote(s) }

func kvItemStr(k, v string) string { return q(k) + "=" + q(v) }

func zNodeStr(k string, score float64, v string) string {
	return q(k) + ":" + strconv.FormatFloat(score, 'g', -1, 64) + ":" + q(v)
}

type kvItem struct {
	V   string
	TTL uint32
	TS  uint64
}

func (it kvItem) live() bool {
	if it.TTL == 0 {
		return true
	}
	return nowUnix() < it.TS+uint64(it.TTL)
}

// virtualClock, when non-zero, is the time the library's expiry test sees (build-tagged hook VerifSetClock);
// timestamps stamped by Put and transaction ids keep using the wall clock.
var virtualClock int64

func setClock(sec int64) {
	virtualClock = sec
	nutsdb.VerifSetClock(sec)
}

func nowUnix() uint64 {
	if virtualClock != 0 {
		return uint64(virtualClock)
	}
	return uint64(time.Now().Unix())
}

// expiry returns the instant from which the item is no longer live (0: never).
func (it kvItem) expiry() uint64 {
	if it.TTL == 0 {
		return 0
	}
	return it.TS + uint64(it.TTL)
}

type zItem struct {
	Score float64
	V     string
}

// Model is the reference model of a whole database.
type Model struct {
	DS  bool // ds-package level semantics (E2) instead of transaction level
	KV  map[string]map[string]kvItem
	L   map[string]map[string][]string
	Set map[string]map[string]map[string]bool
	Z   map[string]map[string]zItem
}

func NewModel() *Model {
	return &Model{
		KV:  map[string]map[string]kvItem{},
		L:   map[string]map[string][]string{},
		Set: map[string]map[string]map[string]bool{},
		Z:   map[string]map[string]zItem{},
	}
}

func (m *Model) Clone() *Model {
	c := NewModel()
	c.DS = m.DS
	for b, mm := range m.KV {
		c.KV[b] = map[string]kvItem{}
		for k, v := range mm {
			c.KV[b][k] = v
		}
	}
	for b, mm := range m.L {
		c.L[b] = map[string][]string{}
		for k, v := range mm {
			c.L[b][k] = append([]string(nil), v...)
		}
	}
	for b, mm := range m.Set {
		c.Set[b] = map[string]map[string]bool{}
		for k, v := range mm {
			c.Set[b][k] = map[string]bool{}
			for i := range v {
				c.Set[b][k][i] = true
			}
		}
	}
	for b, mm := range m.Z {
		c.Z[b] = map[string]zItem{}
		for k, v := range mm {
			c.Z[b][k] = v
		}
	}
	return c
}

// Outcome is one acceptable (result, effect) pair of a call.
type Outcome struct {
	R    Res
	Pred func(Res) bool // when set, used instead of comparing R
	Do   func(m *Model) // effect at commit (nil: none)
	Note string
}

func (o Outcome) matches(r Res) bool {
	if r.Panic != "" {
		return false
	}
	if o.Pred != nil {
		return o.Pred(r)
	}
	return o.R.String() == r.String()
}

func one(r Res, do func(*Model)) []Outcome { return []Outcome{{R: r, Do: do}} }

func errOrEmpty() []Outcome {
	return []Outcome{{R: rErr()}, {R: rItems(nil)}}
}

// ---- KV ----

func (m *Model) livePairs(b string) (keys []string) {
	for k, it := range m.KV[b] {
		if it.live() {
			keys = append(keys, k)
		}
	}
	sort.Strings(keys)
	return
}

func (m *Model) kvItems(b string, keys []string) []string {
	out := make([]string, 0, len(keys))
	for _, k := range keys {
		out = append(out, kvItemStr(k, m.KV[b][k].V))
	}
	return out
}

func itemsOrErr(items []string) []Outcome {
	if len(items) == 0 {
		return errOrEmpty()
	}
	return one(rItems(items), nil)
}

// ---- lists ----

func normRange(n, s, e int) (int, int, bool) {
	// Redis semantics: returns the inclusive [s,e] after clamping; ok=false when empty.
	if s < 0 {
		s += n
		if s < 0 {
			s = 0
		}
	}
	if e < 0 {
		e += n
	}
	if e >= n {
		e = n - 1
	}
	if s > e || s >= n || e < 0 {
		return 0, -1, false
	}
	return s, e, true
}

func rangeInDomain(n, s, e int) bool {
	if n == 0 || s < -n || s > n-1 || e < -n || e > n-1 {
		return false
	}
	ns, ne := s, e
	if ns < 0 {
		ns += n
	}
	if ne < 0 {
		ne += n
	}
	return ns <= ne
}

func lremModel(l []string, count int, v string) ([]string, int) {
	var out []string
	removed := 0
	if count >= 0 {
		for _, x := range l {
			if x == v && (count == 0 || removed < count) {
				removed++
				continue
			}
			out = append(out, x)
		}
		return out, removed
	}
	c := len(l)
	if count > -len(l) {
		c = -count // (negating math.MinInt64 would overflow)
	}
	keep := make([]bool, len(l))
	for i := len(l) - 1; i >= 0; i-- {
		if l[i] == v && removed < c {
			removed++
			continue
		}
		keep[i] = true
	}
	for i, x := range l {
		if keep[i] {
			out = append(out, x)
		}
	}
	return out, removed
}

// ---- zset ----

type zEntry struct {
	K string
	zItem
}

func (m *Model) zSorted(b string) []zEntry {
	var out []zEntry
	for k, it := range m.Z[b] {
		out = append(out, zEntry{k, it})
	}
	sort.Slice(out, func(i, j int) bool {
		if out[i].Score != out[j].Score {
			return out[i].Score < out[j].Score
		}
		return out[i].K < out[j].K
	})
	return out
}

func zStrs(es []zEntry) []string {
	out := make([]string, 0, len(es))
	for _, e := range es {
		out = append(out, zNodeStr(e.K, e.Score, e.V))
	}
	return out
}

func zSanitize(n, s, e int) (int, int) {
	if s < 0 {
		s = n + s + 1
	}
	if e < 0 {
		e = n + e + 1
	}
	if s <= 0 {
		s = 1
	}
	if e <= 0 {
		e = 1
	}
	return s, e
}

func zRankInDomain(n, s, e int) bool {
	ok := func(x int) bool { return (x >= 1 && x <= n) || (x <= -1 && x >= -n) }
	return n > 0 && ok(s) && ok(e)
}

// zByRank returns the members with ranks [s,e] (1-based, after sanitizing), reversed if s>e.
func zByRank(all []zEntry, s, e int) []zEntry {
	n := len(all)
	s, e = zSanitize(n, s, e)
	rev := s > e
	if rev {
		s, e = e, s
	}
	var out []zEntry
	for r := s; r <= e && r <= n; r++ {
		out = append(out, all[r-1])
	}
	if rev {
		for i, j := 0, len(out)-1; i < j; i, j = i+1, j-1 {
			out[i], out[j] = out[j], out[i]
		}
	}
	return out
}

func zByScore(all []zEntry, start, end float64, lim int, exS, exE bool) []zEntry {
	var out []zEntry
	rev := start > end
	lo, hi, exLo, exHi := start, end, exS, exE
	if rev {
		lo, hi, exLo, exHi = end, start, exE, exS
	}
	in := func(sc float64) bool {
		if sc < lo || sc > hi {
			return false
		}
		if exLo && sc == lo {
			return false
		}
		if exHi && sc == hi {
			return false
		}
		return true
	}
	if !rev {
		for _, e := range all {
			if in(e.Score) {
				out = append(out, e)
			}
		}
	} else {
		for i := len(all) - 1; i >= 0; i-- {
			if in(all[i].Score) {
				out = append(out, all[i])
			}
		}
	}
	if lim > 0 && len(out) > lim {
		out = out[:lim]
	}
	return out
}

// validNodes accepts any result made only of current members (with their
// current score and value), without duplicates, ordered by (score,key)
// ascending or descending.
func (m *Model) validNodes(b string) func(Res) bool {
	cur := map[string]int{}
	for i, s := range zStrs(m.zSorted(b)) {
		cur[s] = i
	}
	return func(r Res) bool {
		if r.Err {
			return true
		}
		if r.Kind != "items" {
			return false
		}
		seen := map[string]bool{}
		asc, desc := true, true
		prev := -1
		for _, it := range r.Items {
			idx, ok := cur[it]
			if !ok || seen[it] {
				return false
			}
			seen[it] = true
			if prev >= 0 {
				if idx < prev {
					asc = false
				}
				if idx > prev {
					desc = false
				}
			}
			prev = idx
		}
		return asc || desc
	}
}

// Outcomes returns the acceptable outcomes of op on the current state.
func (m *Model) Outcomes(op Op) []Outcome {
	b, k := string(op.B), string(op.Key)
	switch op.K {
	// ------------------------------------------------------------ KV
	case "put", "putts":
		if k == "" {
			return one(rErr(), nil)
		}
		ts := op.TS
		if op.K == "put" {
			ts = uint64(time.Now().Unix())
		}
		it := kvItem{V: string(op.V), TTL: op.TTL, TS: ts}
		return one(rOK(), func(m *Model) {
			if m.KV[b] == nil {
				m.KV[b] = map[string]kvItem{}
			}
			m.KV[b][k] = it
		})
	case "del":
		if k == "" {
			return one(rErr(), nil)
		}
		return one(rOK(), func(m *Model) { delete(m.KV[b], k) })
	case "get":
		if it, ok := m.KV[b][k]; ok && it.live() {
			return one(rV(kvItemStr(k, it.V)), nil)
		}
		return one(rErr(), nil)
	case "getall":
		return itemsOrErr(m.kvItems(b, m.livePairs(b)))
	case "rangescan":
		s, e := string(op.Key), string(op.Key2)
		if s > e {
			return errOrEmpty()
		}
		var ks []string
		for _, x := range m.livePairs(b) {
			if x >= s && x <= e {
				ks = append(ks, x)
			}
		}
		return itemsOrErr(m.kvItems(b, ks))
	case "prefixscan", "prefixsearchscan":
		var rx *regexp.Regexp
		if op.K == "prefixsearchscan" {
			var err error
			rx, err = regexp.Compile(op.Re)
			if err != nil {
				return one(rErr(), nil)
			}
		}
		var ks []string
		for _, x := range m.livePairs(b) {
			if strings.HasPrefix(x, k) {
				if rx != nil && !rx.Match(bytes.TrimPrefix([]byte(x), []byte(k))) {
					continue
				}
				ks = append(ks, x)
			}
		}
		off, lim := op.I, op.Lim
		if off > len(ks) {
			off = len(ks)
		}
		ks = ks[off:]
		if lim > 0 && len(ks) > lim {
			ks = ks[:lim]
		}
		return itemsOrErr(m.kvItems(b, ks))

	// ------------------------------------------------------------ lists
	case "rpush", "lpush":
		if k == "" {
			if len(op.Vs) == 0 {
				return []Outcome{{R: rErr()}, {R: rOK()}}
			}
			return one(rErr(), nil)
		}
		vs := make([]string, len(op.Vs))
		for i, v := range op.Vs {
			vs[i] = string(v)
		}
		left := op.K == "lpush"
		return one(rOK(), func(m *Model) {
			if len(vs) == 0 {
				return
			}
			if m.L[b] == nil {
				m.L[b] = map[string][]string{}
			}
			l := m.L[b][k]
			if left {
				for _, v := range vs {
					l = append([]string{v}, l...)
				}
			} else {
				l = append(l, vs...)
			}
			m.L[b][k] = l
		})
	case "lpop", "rpop", "lpeek", "rpeek":
		l := m.L[b][k]
		if len(l) == 0 {
			return errOrEmpty()
		}
		left := op.K[0] == 'l'
		v := l[len(l)-1]
		if left {
			v = l[0]
		}
		var do func(*Model)
		if op.K == "lpop" {
			do = func(m *Model) { m.L[b][k] = append([]string(nil), m.L[b][k][1:]...) }
		} else if op.K == "rpop" {
			do = func(m *Model) { x := m.L[b][k]; m.L[b][k] = append([]string(nil), x[:len(x)-1]...) }
		}
		return one(rV(q(v)), do)
	case "lsize":
		n := len(m.L[b][k])
		if n == 0 {
			return []Outcome{{R: rErr()}, {R: rN(0)}}
		}
		return one(rN(n), nil)
	case "lrange":
		l := m.L[b][k]
		n := len(l)
		s, e, ok := normRange(n, op.I, op.J)
		var items []string
		if ok {
			for _, v := range l[s : e+1] {
				items = append(items, q(v))
			}
		}
		if rangeInDomain(n, op.I, op.J) {
			return one(rItems(items), nil)
		}
		return []Outcome{{R: rErr()}, {R: rItems(items)}}
	case "lrem":
		l := m.L[b][k]
		n := len(l)
		if n == 0 {
			return []Outcome{{R: rErr()}, {R: rN(0)}}
		}
		nl, removed := lremModel(l, op.I, string(op.V))
		do := func(m *Model) { m.L[b][k] = nl }
		if op.I <= n && op.I >= -n {
			return one(rN(removed), do)
		}
		return []Outcome{{R: rErr()}, {R: rN(removed), Do: do}}
	case "lset":
		l := m.L[b][k]
		n := len(l)
		i := op.I
		v := string(op.V)
		set := func(idx int) func(*Model) {
			return func(m *Model) {
				x := append([]string(nil), m.L[b][k]...)
				x[idx] = v
				m.L[b][k] = x
			}
		}
		if i >= 0 && i < n {
			return one(rOK(), set(i))
		}
		if i < 0 && i >= -n {
			return []Outcome{{R: rErr()}, {R: rOK(), Do: set(n + i)}}
		}
		return one(rErr(), nil)
	case "ltrim":
		l, exists := m.L[b][k]
		n := len(l)
		if !exists {
			return one(rErr(), nil)
		}
		s, e, ok := normRange(n, op.I, op.J)
		var nl []string
		if ok {
			nl = append(nl, l[s:e+1]...)
		}
		do := func(m *Model) { m.L[b][k] = nl }
		if rangeInDomain(n, op.I, op.J) {
			return one(rOK(), do)
		}
		return []Outcome{{R: rErr()}, {R: rOK(), Do: do}}

	// ------------------------------------------------------------ sets
	case "sadd":
		if k == "" {
			if len(op.Vs) == 0 {
				return []Outcome{{R: rErr()}, {R: rOK()}}
			}
			return one(rErr(), nil)
		}
		vs := op.Vs
		return one(rOK(), func(m *Model) {
			if len(vs) == 0 {
				return
			}
			if m.Set[b] == nil {
				m.Set[b] = map[string]map[string]bool{}
			}
			if m.Set[b][k] == nil {
				m.Set[b][k] = map[string]bool{}
			}
			for _, v := range vs {
				m.Set[b][k][string(v)] = true
			}
		})
	case "srem":
		if k == "" && len(op.Vs) > 0 {
			return one(rErr(), nil)
		}
		vs := op.Vs
		dev := devEmptyMember()
		do := func(m *Model) {
			for _, v := range vs {
				if dev && v == "" && !m.DS {
					continue // known finding: the empty member cannot be removed (each item is its own record)
				}
				delete(m.Set[b][k], string(v))
			}
		}
		if _, ok := m.Set[b][k]; !ok {
			return []Outcome{{R: rErr()}, {R: rOK(), Do: do}}
		}
		if dev && m.DS && len(vs) > 0 && vs[0] == "" {
			return one(rErr(), nil) // ds level: the whole call is rejected
		}
		return one(rOK(), do)
	case "spop":
		s := m.Set[b][k]
		if len(s) == 0 {
			return errOrEmpty()
		}
		var out []Outcome
		for mem := range s {
			mem := mem
			if mem == "" && devEmptyMember() && !m.DS {
				out = append(out, Outcome{R: rV(q(mem)), Note: "dev-empty-member"})
				continue
			}
			out = append(out, Outcome{R: rV(q(mem)), Do: func(m *Model) { delete(m.Set[b][k], mem) }})
		}
		return out
	case "sismember":
		if m.Set[b][k][string(op.V)] {
			return one(rB(true), nil)
		}
		return []Outcome{{R: rB(false)}, {R: rErr()}}
	case "saremembers":
		all := true
		for _, v := range op.Vs {
			if !m.Set[b][k][string(v)] {
				all = false
			}
		}
		_, exists := m.Set[b][k]
		if all && exists {
			return one(rB(true), nil)
		}
		if all { // zero items on a missing key
			return []Outcome{{R: rB(true)}, {R: rB(false)}, {R: rErr()}}
		}
		return []Outcome{{R: rB(false)}, {R: rErr()}}
	case "smembers":
		return itemsOrErr(setStrs(m.Set[b][k]))
	case "scard":
		n := len(m.Set[b][k])
		if n == 0 {
			return []Outcome{{R: rN(0)}, {R: rErr()}}
		}
		return one(rN(n), nil)
	case "shaskey":
		s, exists := m.Set[b][k]
		if len(s) > 0 {
			return one(rB(true), nil)
		}
		if !exists {
			return []Outcome{{R: rB(false)}, {R: rErr()}}
		}
		return []Outcome{{R: rB(true)}, {R: rB(false)}, {R: rErr()}}
	case "sdiff1", "sdiff2", "sunion1", "sunion2":
		b2 := b
		if strings.HasSuffix(op.K, "2") {
			b2 = string(op.B2)
		}
		s1, ok1 := m.Set[b][k]
		s2, ok2 := m.Set[b2][string(op.Key2)]
		res := map[string]bool{}
		for x := range s1 {
			if strings.HasPrefix(op.K, "sunion") || !s2[x] {
				res[x] = true
			}
		}
		if strings.HasPrefix(op.K, "sunion") {
			for x := range s2 {
				res[x] = true
			}
		}
		items := setStrs(res)
		out := []Outcome{{R: rItems(items)}}
		if !ok1 || !ok2 || len(items) == 0 {
			out = append(out, Outcome{R: rErr()})
		}
		return out
	case "smove1", "smove2":
		b2 := b
		if op.K == "smove2" {
			b2 = string(op.B2)
		}
		k2 := string(op.Key2)
		item := string(op.V)
		_, ok1 := m.Set[b][k]
		_, ok2 := m.Set[b2][k2]
		if m.Set[b][k][item] {
			out := []Outcome{{R: rB(true), Do: func(m *Model) {
				if !(item == "" && devEmptyMember()) {
					delete(m.Set[b][k], item)
				}
				if m.Set[b2] == nil {
					m.Set[b2] = map[string]map[string]bool{}
				}
				if m.Set[b2][k2] == nil {
					m.Set[b2][k2] = map[string]bool{}
				}
				m.Set[b2][k2][item] = true
			}}}
			if !ok2 {
				out = append(out, Outcome{R: rErr()})
			}
			return out
		}
		out := []Outcome{{R: rB(false)}, {R: rErr()}}
		if ok1 && ok2 {
			// README is silent; the implementation adds the item to the destination.
			out = append(out, Outcome{R: rB(true), Note: "smove-absent-adds", Do: func(m *Model) {
				m.Set[b2][k2][item] = true
				if !(b == b2 && k == k2) {
					delete(m.Set[b][k], item)
				}
			}})
		}
		return out

	// ------------------------------------------------------------ sorted sets
	case "zadd":
		sc, v := op.F, string(op.V)
		return one(rOK(), func(m *Model) {
			if m.Z[b] == nil {
				m.Z[b] = map[string]zItem{}
			}
			m.Z[b][k] = zItem{sc, v}
		})
	case "zmembers":
		return itemsOrErr(zStrs(m.zSorted(b)))
	case "zcard":
		n := len(m.Z[b])
		if n == 0 {
			return []Outcome{{R: rN(0)}, {R: rErr()}}
		}
		return one(rN(n), nil)
	case "zrangebyscore", "zcount":
		es := zByScore(m.zSorted(b), op.F, op.F2, op.Lim, op.ExS, op.ExE)
		if op.K == "zcount" {
			if len(es) == 0 {
				return []Outcome{{R: rN(0)}, {R: rErr()}}
			}
			return one(rN(len(es)), nil)
		}
		return itemsOrErr(zStrs(es))
	case "zpopmax", "zpopmin", "zpeekmax", "zpeekmin":
		all := m.zSorted(b)
		if len(all) == 0 {
			return errOrEmpty()
		}
		e := all[0]
		if strings.HasSuffix(op.K, "max") {
			e = all[len(all)-1]
		}
		var do func(*Model)
		if strings.HasPrefix(op.K, "zpop") {
			do = func(m *Model) { delete(m.Z[b], e.K) }
		}
		return one(rV(zNodeStr(e.K, e.Score, e.V)), do)
	case "zrangebyrank":
		all := m.zSorted(b)
		if zRankInDomain(len(all), op.I, op.J) {
			return itemsOrErr(zStrs(zByRank(all, op.I, op.J)))
		}
		return []Outcome{{Pred: m.validNodes(b)}}
	case "zrank", "zrevrank":
		all := m.zSorted(b)
		for i, e := range all {
			if e.K == k {
				if op.K == "zrank" {
					return one(rN(i+1), nil)
				}
				return one(rN(len(all)-i), nil)
			}
		}
		return []Outcome{{R: rN(0)}, {R: rErr()}}
	case "zscore":
		if it, ok := m.Z[b][k]; ok {
			return one(rF(it.Score), nil)
		}
		return one(rErr(), nil)
	case "zgetbykey":
		if it, ok := m.Z[b][k]; ok {
			return one(rV(zNodeStr(k, it.Score, it.V)), nil)
		}
		return errOrEmpty()
	case "zrem":
		if k == "" && !m.DS && Known("c07-zrem-empty-key") {
			return one(rErr(), nil) // known finding: ZRem("") is rejected as an empty record key
		}
		do := func(m *Model) { delete(m.Z[b], k) }
		if _, ok := m.Z[b]; !ok {
			return []Outcome{{R: rErr()}, {R: rOK(), Do: do}}
		}
		return one(rOK(), do)
	case "zremrangebyrank":
		all := m.zSorted(b)
		if _, ok := m.Z[b]; !ok {
			return []Outcome{{R: rErr()}, {R: rOK()}}
		}
		if len(all) == 0 {
			return one(rOK(), nil)
		}
		if !zRankInDomain(len(all), op.I, op.J) {
			// out-of-domain ranks are not generated for mutating calls
			return []Outcome{{R: rErr()}, {Pred: func(Res) bool { return true }, Note: "unspecified"}}
		}
		victims := zByRank(all, op.I, op.J)
		return one(rOK(), func(m *Model) {
			for _, v := range victims {
				delete(m.Z[b], v.K)
			}
		})
	}
	panic(fmt.Sprintf("model: unknown op %q", op.K))
}

func setStrs(s map[string]bool) []string {
	out := make([]string, 0, len(s))
	for x := range s {
		out = append(out, q(x))
	}
	sort.Strings(out)
	return out
}

// isWrite reports whether the op is a mutating call.
func isWrite(k string) bool {
	switch k {
	case "put", "putts", "putbig", "del", "rpush", "lpush", "lpop", "rpop", "lrem", "lset", "ltrim",
		"sadd", "srem", "spop", "smove1", "smove2",
		"zadd", "zrem", "zremrangebyrank", "zpopmax", "zpopmin":
		return true
	}
	return false
}

// devEmptyMember: named model deviation for the recorded finding "the empty
// member can be added to a set but never removed" (KNOWN_FINDINGS.txt).
func devEmptyMember() bool { return Known("c06-empty-member-unremovable") }
