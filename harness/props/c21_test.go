package props

import (
	"bytes"
	"encoding/json"
	"fmt"
	"math"
	"os"
	"path/filepath"
	"reflect"
	"strings"
	"testing"

	"github.com/xujiajun/nutsdb"
	"pgregory.net/rapid"
)

// C21 — stored records round-trip; a corrupted record is never served as data.
// For every generated record image: the round-trip through the real reader, then EVERY
// single-bit flip and EVERY truncation (tail zero-filled as a torn write leaves it, and
// file cut short) of its stored bytes, read back through DataFile.ReadAt with both
// RWManagers, ReadBPTreeRootIdxAt and ReadBucketMeta.

type RecCase struct {
	Kind   string `json:"kind"` // entry, rootidx, bucketmeta
	Bucket S      `json:"bucket,omitempty"`
	Key    S      `json:"key,omitempty"`   // entry key / start
	Value  S      `json:"value,omitempty"` // entry value / end
	TS     uint64 `json:"ts,omitempty"`
	TTL    uint32 `json:"ttl,omitempty"`
	Flag   uint16 `json:"flag,omitempty"`
	Status uint16 `json:"status,omitempty"`
	DS     uint16 `json:"ds,omitempty"`
	TxID   uint64 `json:"txid,omitempty"`
	FID    uint64 `json:"fid,omitempty"`
	Off    uint64 `json:"off,omitempty"`
	Huge   bool   `json:"huge,omitempty"`   // also flip bits 24..31 of the size fields (multi-GiB allocations in the reader; drawn for 1 case in 60)
	Follow string `json:"follow,omitempty"` // what follows the record in the file: "", zeros, copy (the record again), ones
}

var u64Edges = []uint64{0, 1, 2, 255, 256, 1 << 31, 1<<32 - 1, 1 << 32, 1 << 62, math.MaxInt64, math.MaxUint64 - 1, math.MaxUint64}
var u32Edges = []uint32{0, 1, 255, 65536, math.MaxInt32, math.MaxUint32}
var u16Edges = []uint16{0, 1, 2, 3, 4, 5, 9, 17, 18, 255, 256, math.MaxUint16}

func genBytes(t *rapid.T, label string, max int) S {
	if rapid.IntRange(0, 39).Draw(t, label+"long") == 17 {
		return S(strings.Repeat("x", rapid.SampledFrom([]int{255, 256, 300}).Draw(t, label+"len")))
	}
	n := rapid.IntRange(0, max).Draw(t, label+"n")
	b := make([]byte, n)
	for i := range b {
		b[i] = rapid.SampledFrom([]byte{0, 0, 1, 'a', 'b', '|', 0x7f, 0x80, 0xff}).Draw(t, label+"b")
	}
	return S(b)
}

func genRecCase() *rapid.Generator[Case] {
	return rapid.Custom(func(t *rapid.T) Case {
		r := RecCase{Kind: rapid.SampledFrom([]string{"entry", "entry", "entry", "rootidx", "bucketmeta"}).Draw(t, "kind")}
		r.Bucket = genBytes(t, "bucket", 6)
		r.Key = genBytes(t, "key", 8)
		r.Value = genBytes(t, "value", 12)
		r.TS = rapid.SampledFrom(u64Edges).Draw(t, "ts")
		r.TTL = rapid.SampledFrom(u32Edges).Draw(t, "ttl")
		r.Flag = rapid.SampledFrom(u16Edges).Draw(t, "flag")
		r.Status = rapid.SampledFrom([]uint16{0, 1, 2, 255, math.MaxUint16}).Draw(t, "status")
		r.DS = rapid.SampledFrom([]uint16{0, 1, 2, 3, 4, math.MaxUint16}).Draw(t, "ds")
		r.TxID = rapid.SampledFrom(u64Edges).Draw(t, "txid")
		r.FID = rapid.SampledFrom(u64Edges).Draw(t, "fid")
		r.Off = rapid.SampledFrom(u64Edges).Draw(t, "off")
		r.Huge = rapid.IntRange(0, 59).Draw(t, "huge") == 31 // rapid biases integer draws towards the bounds, hence an interior value
		r.Follow = rapid.SampledFrom([]string{"", "zeros", "copy", "ones"}).Draw(t, "follow")
		if b := rapid.IntRange(0, 15).Draw(t, "blank"); b >= 8 && b <= 10 {
			// nearly blank records: what distinguishes them from an unwritten slot is a single field
			r.Key, r.Value, r.TS = "", "", 0
			if b == 9 {
				r.Bucket, r.TTL, r.Flag, r.Status, r.DS, r.TxID = "", 0, 0, 0, 0, 0
			}
			if b == 10 {
				r.Bucket = ""
			}
		}
		return Case{Extra: map[string]interface{}{"rec": r}}
	})
}

func recOf(c Case) (RecCase, error) {
	var r RecCase
	b, _ := jsonMarshal(c.Extra["rec"])
	if err := jsonUnmarshal(b, &r); err != nil {
		return r, err
	}
	return r, nil
}

type decoded struct {
	absent bool
	err    error
	fields interface{}
}

// image returns the stored bytes of the record and the fields that were written.
func (r RecCase) image() ([]byte, interface{}) {
	switch r.Kind {
	case "entry":
		f := nutsdb.VerifEntryFields{Bucket: []byte(r.Bucket), Key: []byte(r.Key), Value: []byte(r.Value), Timestamp: r.TS, TTL: r.TTL,
			Flag: r.Flag, Status: r.Status, DS: r.DS, TxID: r.TxID}
		e := nutsdb.VerifNewEntry(f)
		f.KeySize, f.ValueSize, f.BucketSize = uint32(len(f.Key)), uint32(len(f.Value)), uint32(len(f.Bucket))
		return e.Encode(), f
	case "rootidx":
		f := nutsdb.VerifRootIdxFields{FID: r.FID, RootOff: r.Off, Start: []byte(r.Key), End: []byte(r.Value)}
		return nutsdb.VerifNewRootIdx(f).Encode(), f
	default:
		return nutsdb.VerifNewBucketMeta([]byte(r.Key), []byte(r.Value)).Encode(), [2][]byte{[]byte(r.Key), []byte(r.Value)}
	}
}

// hugeSizeBit reports whether bit i of the image is one of the 8 high bits of a size field.
func hugeSizeBit(kind string, i int) bool {
	var hi []int // index of the most significant byte of each little-endian uint32 size field
	switch kind {
	case "entry":
		hi = []int{15, 19, 29}
	case "rootidx":
		hi = []int{23, 27}
	default:
		hi = []int{7, 11}
	}
	for _, b := range hi {
		if i/8 == b {
			return true
		}
	}
	return false
}

func normBytes(b []byte) []byte {
	if b == nil {
		return []byte{}
	}
	return b
}

func sameFields(a, b interface{}) bool {
	switch x := a.(type) {
	case nutsdb.VerifEntryFields:
		y, ok := b.(nutsdb.VerifEntryFields)
		if !ok {
			return false
		}
		x.Bucket, x.Key, x.Value = normBytes(x.Bucket), normBytes(x.Key), normBytes(x.Value)
		y.Bucket, y.Key, y.Value = normBytes(y.Bucket), normBytes(y.Key), normBytes(y.Value)
		return reflect.DeepEqual(x, y)
	case nutsdb.VerifRootIdxFields:
		y, ok := b.(nutsdb.VerifRootIdxFields)
		return ok && x.FID == y.FID && x.RootOff == y.RootOff && bytes.Equal(x.Start, y.Start) && bytes.Equal(x.End, y.End)
	case [2][]byte:
		y, ok := b.([2][]byte)
		return ok && bytes.Equal(x[0], y[0]) && bytes.Equal(x[1], y[1])
	}
	return false
}

// readImage stores data (capacity bytes long file) and reads the record at offset 0 with the real reader.
func readImage(kind, path string, data []byte, capacity int64, rw int) (d decoded) {
	defer func() {
		if p := recover(); p != nil {
			// out-of-range sizes make the reader panic (makeslice) - that is an error path of C20, here: not data
			d = decoded{err: fmt.Errorf("panic: %v", p)}
		}
	}()
	if err := os.WriteFile(path, data, 0o644); err != nil {
		panic(err)
	}
	switch kind {
	case "entry":
		df, err := nutsdb.NewDataFile(path, capacity, nutsdb.RWMode(rw))
		if err != nil {
			return decoded{err: err}
		}
		defer df.Close()
		e, err := df.ReadAt(0)
		if err != nil {
			return decoded{err: err}
		}
		if e == nil {
			return decoded{absent: true}
		}
		return decoded{fields: nutsdb.VerifEntryOf(e)}
	case "rootidx":
		fd, err := os.Open(path)
		if err != nil {
			panic(err)
		}
		defer fd.Close()
		b, err := nutsdb.ReadBPTreeRootIdxAt(fd, 0)
		if err != nil {
			return decoded{err: err}
		}
		if b == nil {
			return decoded{absent: true}
		}
		return decoded{fields: nutsdb.VerifRootIdxOf(b)}
	default:
		bm, err := nutsdb.ReadBucketMeta(path)
		if err != nil {
			return decoded{err: err}
		}
		if bm == nil {
			return decoded{absent: true}
		}
		s, e := nutsdb.VerifBucketMetaOf(bm)
		return decoded{fields: [2][]byte{s, e}}
	}
}

func runC21(c Case, st *Stats) error {
	r, err := recOf(c)
	if err != nil {
		return fmt.Errorf("bad case: %v", err)
	}
	if underNativeFuzz {
		r.Huge = false
	}
	dir := newDir("c21")
	defer os.RemoveAll(dir)
	path := filepath.Join(dir, "0.dat")
	img, want := r.image()
	var tail []byte
	switch r.Follow {
	case "zeros":
		tail = make([]byte, 64)
	case "copy":
		tail = append([]byte(nil), img...)
	case "ones":
		tail = bytes.Repeat([]byte{0xff}, 64)
	}
	full := append(append([]byte(nil), img...), tail...)
	rws := []int{0}
	if r.Kind == "entry" {
		rws = []int{0, 1}
	}
	sub := 0
	headerFlips, skippedHuge := 0, 0
	allZero := len(bytes.Trim(img, "\x00")) == 0
	for _, rw := range rws {
		// round-trip
		d := readImage(r.Kind, path, full, int64(len(full)), rw)
		if allZero && d.absent {
			// the all-zero image is the format's end-of-log marker
		} else if d.err != nil || d.absent || !sameFields(want, d.fields) {
			return fmt.Errorf("round-trip (%s, rw=%d): wrote %+v, read back %+v (absent=%v err=%v)", r.Kind, rw, want, d.fields, d.absent, d.err)
		}
		sub++
		check := func(what string, data []byte, capacity int64) error {
			os.Remove(path)
			d := readImage(r.Kind, path, data, capacity, rw)
			sub++
			if d.err != nil || d.absent {
				return nil
			}
			if !sameFields(want, d.fields) {
				return fmt.Errorf("%s (%s, rw=%d): the reader served a record that was never written: wrote %+v, read %+v", what, r.Kind, rw, want, d.fields)
			}
			return nil
		}
		// every single-bit flip of the stored record
		for i := 0; i < len(img)*8; i++ {
			if !r.Huge && hugeSizeBit(r.Kind, i) {
				skippedHuge++
				continue
			}
			mut := append([]byte(nil), full...)
			mut[i/8] ^= 1 << uint(i%8)
			if err := check(fmt.Sprintf("bit %d of byte %d flipped", i%8, i/8), mut, int64(len(mut))); err != nil {
				return err
			}
			if i/8 < 42 {
				headerFlips++
			}
		}
		// every truncation: tail zero-filled (torn write inside a pre-sized segment) and file cut short
		for n := 0; n < len(img); n++ {
			if err := check(fmt.Sprintf("truncated to %d bytes, zero-filled", n), append(append([]byte(nil), img[:n]...), make([]byte, len(full)-n+16)...), int64(len(full)+16)); err != nil {
				return err
			}
			if n > 0 {
				if err := check(fmt.Sprintf("file cut to %d bytes", n), img[:n], int64(n)); err != nil {
					return err
				}
			}
		}
	}
	st.Sub(sub)
	classes := []string{r.Kind, "follow-" + r.Follow}
	if len(r.Key) == 0 {
		classes = append(classes, "empty-key-or-start")
	}
	if len(img) > 200 {
		classes = append(classes, "long-field")
	}
	// non-trivial: the record carries payload, so that flips land in size fields, status, crc AND payload
	st.Class("header-bit-flips", headerFlips)
	st.Class("size-field-top-byte-flips-skipped", skippedHuge)
	if r.Huge {
		classes = append(classes, "with-size-field-top-byte-flips")
	}
	st.Eval(c.JSON(), len(r.Key)+len(r.Value)+len(r.Bucket) > 0, classes...)
	return nil
}

func init() { register("C21", runC21) }

func TestC21(t *testing.T) {
	runProperty(t, "C21", genRecCase(), runC21)
}

func jsonMarshal(v interface{}) ([]byte, error)   { return json.Marshal(v) }
func jsonUnmarshal(b []byte, v interface{}) error { return json.Unmarshal(b, v) }
