package props

import (
	"fmt"
	"os"
	"runtime"
	"strings"
	"sync/atomic"
	"testing"
	"time"

	"github.com/xujiajun/nutsdb"
)

// C14 / C17 / C18 — concurrent transactions (with Merge, with Backup).

func runConcCase(c Case, st *Stats, prop string) error {
	p := c.Conc
	if p == nil {
		return fmt.Errorf("case has no concurrent program")
	}
	structs := c.Cfg.Mode == 0
	root := newDir("conc")
	if os.Getenv("VERIF_DEBUG") == "" {
		defer os.RemoveAll(root)
	} else {
		fmt.Println("DEBUG root:", root)
	}
	var dirs []string
	var dbs []*nutsdb.DB
	var hs []*DBH
	var recs []*Recorder
	for i := 0; i < p.DBs; i++ {
		d := fmt.Sprintf("%s/db%d", root, i)
		h, err := OpenDB(d, c.Cfg)
		if err != nil {
			return fmt.Errorf("open failed: %v", err)
		}
		r := StartRecorder(d)
		r.Discard = true
		if p.Yield > 0 {
			y := int64(p.Yield)
			r.Yield = func(ev *nutsdb.VerifEvent) {
				if atomic.AddInt64(&hookCounter, 1)%y == 0 {
					runtime.Gosched()
				}
			}
		}
		recs = append(recs, r)
		dirs = append(dirs, d)
		dbs = append(dbs, h.DB)
		hs = append(hs, h)
	}
	defer func() {
		for _, r := range recs {
			r.Stop()
		}
	}()
	if p.Slow > 0 {
		// sealed segments of SegmentSize bytes each, copied before the active one (file-id order)
		for i := 0; i < p.Slow; i++ {
			val := make([]byte, c.Cfg.Seg-200)
			if err := dbs[0].Update(func(tx *nutsdb.Tx) error {
				return tx.Put("fill", []byte(fmt.Sprintf("f%d", i)), val, 0)
			}); err != nil {
				return fmt.Errorf("population of the slow-copy case failed: %v", err)
			}
		}
	}
	if p.PreMerge {
		for di, db := range dbs {
			for i := 0; i < 2; i++ {
				val := make([]byte, c.Cfg.Seg*6/10)
				if err := db.Update(func(tx *nutsdb.Tx) error { return tx.Put("pre", []byte(fmt.Sprintf("p%d", i)), val, 0) }); err != nil {
					return fmt.Errorf("population before the merge failed: %v", err)
				}
			}
			if err := db.Merge(); err != nil {
				return fmt.Errorf("db%d: Merge of two segments before the concurrent phase failed: %v", di, err)
			}
		}
	}
	if p.Fresh {
		for di := range dbs {
			if !p.PreMerge && p.Slow == 0 {
				for i := 0; i < 2; i++ {
					val := make([]byte, c.Cfg.Seg*6/10)
					if err := dbs[di].Update(func(tx *nutsdb.Tx) error { return tx.Put("pre", []byte(fmt.Sprintf("p%d", i)), val, 0) }); err != nil {
						return fmt.Errorf("population before the reopen failed: %v", err)
					}
				}
			}
			time.Sleep(2 * time.Millisecond) // a restarted process does not share a millisecond with its predecessor (2.2)
			if err := hs[di].Reopen(); err != nil {
				return fmt.Errorf("db%d: reopen before the concurrent phase failed: %v", di, err)
			}
			dbs[di] = hs[di].DB
		}
	}
	newRaceReports() // drain reports of earlier cases
	if p.NoList {
		st.Exclude("c15-merge-list-duplication")
	}
	res := runConc(c, dirs, dbs, root)
	if res.Deadlock != "" {
		if strings.HasPrefix(res.Deadlock, "TIMEOUT-NOT-A-LOCK-WAIT") {
			panic("INCONCLUSIVE: concurrent workload timed out without a lock wait\n" + res.Deadlock[:minInt(len(res.Deadlock), 4000)])
		}
		return fatalViolation{fmt.Sprintf("deadlock: the workload did not finish within 60 s, goroutines are parked on the database lock:\n%s", res.Deadlock[:minInt(len(res.Deadlock), 20000)])}
	}
	if res.Panic != "" {
		return fmt.Errorf("a transaction panicked: %s", res.Panic)
	}
	// final state per database (the backups are judged below, once their copies have been read)
	var txRecs []concRec
	for _, r := range res.Recs {
		if r.Kind != "backup" {
			txRecs = append(txRecs, r)
		} else if r.Err != "" {
			return fmt.Errorf("Backup into a new directory failed: %s", r.Err)
		}
	}
	for i := range dbs {
		final := map[string]int{}
		finalVer := 0
		var finalList, finalSet []int
		tx, err := dbs[i].Begin(false)
		if err != nil {
			return fmt.Errorf("final read failed: %v", err)
		}
		finalVer, _ = readVer(tx)
		final = readKeys(tx, concKeys)
		if structs {
			finalList = readList(tx)
			finalSet = readSet(tx)
			final["\x00zcur"] = readZCur(tx)
		}
		_ = tx.Rollback()
		if err := checkConc(txRecs, i, structs, p.NoList, final, finalVer, finalList, finalSet, true); err != nil {
			return fmt.Errorf("db%d: %v", i, err)
		}
	}
	// backups: open every copy and judge it as a reader
	nBackups := 0
	for ri := range res.Recs {
		r := &res.Recs[ri]
		if r.Kind != "backup" || r.Err != "" {
			continue
		}
		nBackups++
		h, err := OpenDB(r.Dir, c.Cfg)
		if err != nil {
			return fmt.Errorf("the backup copy does not open: %v", err)
		}
		tx, err := h.DB.Begin(false)
		if err != nil {
			h.Close()
			return fmt.Errorf("backup copy: begin failed: %v", err)
		}
		r.Ver, _ = readVer(tx)
		r.Vals = readKeys(tx, concKeys)
		r.Scan, r.Scan2 = readScans(tx)
		if os.Getenv("VERIF_DEBUG") != "" {
			fmt.Println("DEBUG backup read:", r.Dir, r.Ver, r.Vals, r.Scan, r.Scan2)
		}
		if structs {
			r.List = readList(tx)
			if r.List == nil {
				r.List = []int{}
			}
			r.Set = readSet(tx)
			r.ZCur = readZCur(tx)
		}
		_ = tx.Rollback()
		h.Close()
	}
	if nBackups > 0 {
		if err := checkConc(res.Recs, 0, structs, p.NoList, nil, 0, nil, nil, false); err != nil {
			return fmt.Errorf("backup: %v", err)
		}
	}
	for _, h := range hs {
		h.Close()
	}
	// race reports
	for _, rep := range newRaceReports() {
		if !rep.Lib {
			panic("HARNESS-RACE: " + rep.Text)
		}
		if id := knownRace(rep.Sig); id != "" {
			st.Deviate(id)
			continue
		}
		return fmt.Errorf("data race reported by the race detector [%s]:\n%s", rep.Sig, rep.Text[:minInt(len(rep.Text), 2500)])
	}
	// classification: overlapping writers/readers
	ow, or := 0, 0
	for i, a := range res.Recs {
		for j, b := range res.Recs {
			if i < j && a.DB == b.DB && a.Inv < b.Ret && b.Inv < a.Ret {
				if a.W && b.W {
					ow++
				} else {
					or++
				}
			}
		}
	}
	classes := []string{fmt.Sprintf("mode%d", c.Cfg.Mode), fmt.Sprintf("dbs%d", p.DBs)}
	mergesOK, mergesOverlapped, backupsOverlapped := 0, 0, 0
	for _, a := range res.Recs {
		if (a.Kind != "merge" && a.Kind != "backup") || a.Err != "" {
			continue
		}
		over := false
		for _, b := range res.Recs {
			if b.Kind == "" && b.DB == a.DB && a.Inv < b.Ret && b.Inv < a.Ret && (a.Kind == "merge" || b.W) {
				over = true
			}
		}
		if a.Kind == "merge" {
			mergesOK++
			if over {
				mergesOverlapped++
			}
		} else if over {
			backupsOverlapped++
		}
	}
	st.Class("merges-that-rewrote-or-removed-segments", mergesOK)
	st.Class("merges-overlapping-a-transaction", mergesOverlapped)
	st.Class("backups-overlapping-a-writer", backupsOverlapped)
	if mergesOK > 0 {
		classes = append(classes, "case-with-successful-merge")
	}
	if backupsOverlapped > 0 {
		classes = append(classes, "case-with-backup-overlapping-writer")
	}
	nontrivial := ow+or >= 2
	switch prop {
	case "C17":
		nontrivial = mergesOverlapped > 0
	case "C18":
		nontrivial = backupsOverlapped > 0
	}
	if ow > 0 {
		classes = append(classes, "overlapping-writers")
	}
	if or > 0 {
		classes = append(classes, "overlapping-reader")
	}
	failed := 0
	for _, a := range res.Recs {
		if a.Fail != "" {
			failed++
		}
		if a.LateFor != "" {
			st.Class("late-writers-started-after-the-copy-began", 1)
		}
	}
	if p.Slow > 0 {
		classes = append(classes, "slow-copy-case")
	}
	if p.PreMerge {
		classes = append(classes, "merged-before-the-concurrent-phase")
	}
	if p.Fresh {
		classes = append(classes, "first-transactions-of-a-fresh-handle")
	}
	st.Class("failed-write-transactions", failed)
	if failed > 0 {
		classes = append(classes, "case-with-failed-write-transaction")
	}
	st.Class("overlapping-pairs", ow+or)
	st.Eval(c.JSON(), nontrivial, classes...)
	return nil
}

func runC14(c Case, st *Stats) error { return runConcCase(c, st, "C14") }
func runC17(c Case, st *Stats) error { return runConcCase(c, st, "C17") }

func init() {
	register("C14", runC14)
	register("C17", runC17)
}

func TestC14(t *testing.T) {
	runProperty(t, "C14", genConcProg(16, []int{0, 1, 2}, false, false), runC14)
}

func TestC17(t *testing.T) {
	runProperty(t, "C17", genConcProg(8, []int{0, 1}, true, false), runC17)
}

func TestC18Conc(t *testing.T) {
	runProperty(t, "C18", genConcProg(8, []int{0, 1, 2}, false, true), runC18)
}
