package props

import (
	"errors"
	"fmt"
	"math"
	"os"
	"path/filepath"
	"runtime/debug"
	"sort"
	"strconv"
	"strings"
	"time"

	"github.com/xujiajun/nutsdb"
	"github.com/xujiajun/nutsdb/ds/zset"
)

// DBH wraps a nutsdb handle with panic-safe execution.
type DBH struct {
	Concurrent bool // several goroutines use this handle (the lock probe of RunTx is disabled)
	DB         *nutsdb.DB
	Dir        string
	Cfg        Config
	Dead       bool // a panic happened while the lock may be held; never touch again

	lastTxMs int64 // wall-clock millisecond of the last transaction begun on this directory
}

func panicSite(stack []byte) string {
	// innermost nutsdb frame
	lines := strings.Split(string(stack), "\n")
	for _, l := range lines {
		if strings.Contains(l, "github.com/xujiajun/nutsdb") && !strings.Contains(l, "verifharness") {
			l = strings.TrimSpace(l)
			if i := strings.LastIndex(l, "("); i > 0 {
				l = l[:i]
			}
			return strings.TrimPrefix(l, "github.com/xujiajun/nutsdb")
		}
	}
	return "?"
}

// OpenDB opens a database; a panic is returned as an error with Panic prefix.
func OpenDB(dir string, cfg Config) (h *DBH, err error) {
	defer func() {
		if r := recover(); r != nil {
			err = fmt.Errorf("PANIC in Open: %v at %s", r, panicSite(debug.Stack()))
			h = nil
		}
	}()
	db, e := nutsdb.Open(cfg.Options(dir))
	if e != nil {
		return nil, e
	}
	return &DBH{DB: db, Dir: dir, Cfg: cfg}, nil
}

func (h *DBH) Close() (err error) {
	if h == nil || h.Dead || h.DB == nil {
		return nil
	}
	defer func() {
		if r := recover(); r != nil {
			err = fmt.Errorf("PANIC in Close: %v at %s", r, panicSite(debug.Stack()))
		}
	}()
	err = h.DB.Close()
	h.DB = nil
	return err
}

// Reopen closes and opens with the same options.
func (h *DBH) Reopen() error {
	if err := h.Close(); err != nil {
		return fmt.Errorf("close: %v", err)
	}
	// Transaction ids are time based (millisecond clock + per-process sequence). A
	// restarted process never shares a millisecond with its predecessor, so the
	// simulated restart does not either (stated assumption, DESIGN.md 2.2).
	for time.Now().UnixMilli() <= h.lastTxMs {
		time.Sleep(100 * time.Microsecond)
	}
	n, err := OpenDB(h.Dir, h.Cfg)
	if err != nil {
		return err
	}
	h.DB = n.DB
	return nil
}

func (h *DBH) Merge() (err error) {
	// Merge runs write transactions of its own: like RunTx it counts for the "a restarted process does not
	// share a millisecond with its predecessor" rule of Reopen
	defer func() { h.lastTxMs = time.Now().UnixMilli() }()
	defer func() {
		if r := recover(); r != nil {
			err = fmt.Errorf("PANIC in Merge: %v at %s", r, panicSite(debug.Stack()))
			h.Dead = true
		}
	}()
	return h.DB.Merge()
}

// TxResult is what a transaction step produced.
type TxResult struct {
	Res       []Res
	AfterRes  []Res
	CommitErr error
	BeginErr  error
	Panic     string // panic outside an op (Commit/Begin/Rollback)
	Committed bool
}

var errFn = errors.New("verif: fn error")

// RunTx executes a step of kind tx/view. ops are executed in order; an op that
// returns an error does not stop the transaction.
func (h *DBH) RunTx(st Step, writable bool, pre func(i int, op *Op)) (tr TxResult) {
	defer func() { h.lastTxMs = time.Now().UnixMilli() }()
	resetArgArena()
	end := st.End
	if end == "" {
		end = "commit"
	}
	n := len(st.Ops)
	if end == "fnerr" && st.FailAt < n {
		n = st.FailAt
	}
	body := func(tx *nutsdb.Tx) {
		for i := 0; i < n; i++ {
			op := st.Ops[i]
			if pre != nil {
				pre(i, &op)
			}
			tr.Res = append(tr.Res, ExecOp(h, tx, op))
		}
	}
	if st.Managed {
		defer func() {
			if r := recover(); r != nil {
				tr.Panic = fmt.Sprintf("%v at %s", r, panicSite(debug.Stack()))
				h.Dead = true
			}
		}()
		var kept *nutsdb.Tx // the handle as an application that keeps it beyond the function would have it
		fn := func(tx *nutsdb.Tx) error {
			kept = tx
			body(tx)
			switch end {
			case "fnerr":
				return errFn
			case "rollback":
				// managed transactions have no explicit rollback: returning an error is the way
				return errFn
			}
			return nil
		}
		var err error
		if writable {
			err = h.DB.Update(fn)
		} else {
			err = h.DB.View(fn)
		}
		if err != nil && err != errFn {
			tr.CommitErr = err
		}
		tr.Committed = err == nil
		if err != nil && !h.lockReleased() {
			// db.Update/db.View returned an error but kept the database lock: every later transaction would block forever
			tr.Panic = "DEADLOCK: the database lock is still held after db.Update/db.View returned the error: " + err.Error()
			h.Dead = true
			return
		}
		if len(st.After) > 0 && kept != nil {
			// calls on the finished transaction's handle: first with no transaction open, then again from inside a
			// later (otherwise empty) managed write transaction, which commits - AfterRes holds both rounds
			for _, op := range st.After {
				tr.AfterRes = append(tr.AfterRes, ExecOp(h, kept, op))
			}
			_ = h.DB.Update(func(tx2 *nutsdb.Tx) error {
				for _, op := range st.After {
					tr.AfterRes = append(tr.AfterRes, ExecOp(h, kept, op))
				}
				return nil
			})
		}
		return
	}
	// manual style
	var tx *nutsdb.Tx
	func() {
		defer func() {
			if r := recover(); r != nil {
				tr.Panic = fmt.Sprintf("Begin: %v at %s", r, panicSite(debug.Stack()))
				h.Dead = true
			}
		}()
		tx, tr.BeginErr = h.DB.Begin(writable)
	}()
	if tr.BeginErr != nil || tr.Panic != "" {
		return
	}
	body(tx)
	func() {
		defer func() {
			if r := recover(); r != nil {
				tr.Panic = fmt.Sprintf("%s: %v at %s", end, r, panicSite(debug.Stack()))
				h.Dead = true
			}
		}()
		if end == "commit" {
			if err := tx.Commit(); err != nil {
				tr.CommitErr = err
				_ = tx.Rollback()
			} else {
				tr.Committed = true
			}
		} else {
			_ = tx.Rollback()
		}
	}()
	if tr.Panic == "" {
		for _, op := range st.After {
			tr.AfterRes = append(tr.AfterRes, ExecOp(h, tx, op))
		}
	}
	return
}

// lockReleased probes the database lock after a managed transaction that failed: a write
// transaction must be able to begin (nothing else is running in the sequential checks; the
// concurrent engine has its own watchdog). The 30 s limit is only a backstop for reporting;
// an idle lock is acquired in microseconds.
func (h *DBH) lockReleased() bool {
	if h.Concurrent {
		return true
	}
	done := make(chan struct{})
	go func() {
		defer func() { _ = recover(); close(done) }()
		if tx, err := h.DB.Begin(true); err == nil {
			_ = tx.Rollback()
		}
	}()
	select {
	case <-done:
		return true
	case <-time.After(30 * time.Second):
		return false
	}
}

func bs(s S) []byte { return []byte(s) }

// argArena makes the calls of one transaction share their argument slices the way caller code does
// (`key := []byte("mylist")` used for several calls): within a transaction equal byte strings are passed as
// the SAME slice, which has spare capacity (as []byte(string) usually has). The contents never change, so
// this is transparent unless the library writes into a caller's slice or keeps it and appends to it.
var argArena = map[string][]byte{}

func resetArgArena() {
	for k := range argArena {
		delete(argArena, k)
	}
}

// kb converts an argument; with op.Nil an empty argument is passed as a nil slice.
func kb(op Op, s S) []byte {
	if op.Nil && len(s) == 0 {
		return nil
	}
	if len(s) > 4096 {
		return []byte(s)
	}
	if b, ok := argArena[string(s)]; ok && string(b) == string(s) {
		return b
	}
	b := make([]byte, len(s), len(s)+24)
	copy(b, s)
	argArena[string(s)] = b
	return b
}

func kbs(op Op) [][]byte {
	if op.Nil && len(op.Vs) == 0 {
		return nil
	}
	out := make([][]byte, len(op.Vs))
	for i := range op.Vs {
		out[i] = kb(op, op.Vs[i])
	}
	return out
}

func bss(v []S) [][]byte {
	out := make([][]byte, len(v))
	for i := range v {
		out[i] = []byte(v[i])
	}
	return out
}

func fval(f float64, code int) float64 {
	switch code {
	case 1:
		return math.NaN()
	case 2:
		return math.Inf(1)
	case 3:
		return math.Inf(-1)
	}
	return f
}

func entriesRes(es nutsdb.Entries, err error) Res {
	if err != nil {
		return rErr()
	}
	items := make([]string, 0, len(es))
	for _, e := range es {
		if e == nil {
			items = append(items, "<nil>")
			continue
		}
		items = append(items, kvItemStr(string(e.Key), string(e.Value)))
	}
	return rItems(items)
}

func listRes(l [][]byte, err error, sorted bool) Res {
	if err != nil {
		return rErr()
	}
	items := make([]string, 0, len(l))
	for _, v := range l {
		items = append(items, q(string(v)))
	}
	if sorted {
		sort.Strings(items)
	}
	return rItems(items)
}

func nodeStr(n *zset.SortedSetNode) string {
	return zNodeStr(n.Key(), float64(n.Score()), string(n.Value))
}

func nodesRes(ns []*zset.SortedSetNode, err error) Res {
	if err != nil {
		return rErr()
	}
	items := make([]string, 0, len(ns))
	for _, n := range ns {
		if n == nil {
			items = append(items, "<nil>")
			continue
		}
		items = append(items, nodeStr(n))
	}
	return rItems(items)
}

func nodeRes(n *zset.SortedSetNode, err error) Res {
	if err != nil {
		return rErr()
	}
	if n == nil {
		return rItems(nil)
	}
	return rV(nodeStr(n))
}

func errRes(err error) Res {
	if err != nil {
		return rErr()
	}
	return rOK()
}

func nRes(n int, err error) Res {
	if err != nil {
		return rErr()
	}
	return rN(n)
}

func bRes(b bool, err error) Res {
	if err != nil {
		return rErr()
	}
	return rB(b)
}

func valRes(v []byte, err error) Res {
	if err != nil {
		return rErr()
	}
	if v == nil {
		return rItems(nil)
	}
	return rV(q(string(v)))
}

// ExecOp runs one API call on tx, converting a panic into Res.Panic.
func ExecOp(h *DBH, tx *nutsdb.Tx, op Op) (res Res) {
	defer func() {
		if r := recover(); r != nil {
			res = Res{Panic: fmt.Sprintf("%s: %v at %s", op.K, r, panicSite(debug.Stack()))}
		}
	}()
	b, b2 := string(op.B), string(op.B2)
	switch op.K {
	case "put":
		return errRes(tx.Put(b, kb(op, op.Key), kb(op, op.V), op.TTL))
	case "putts":
		return errRes(tx.PutWithTimestamp(b, kb(op, op.Key), kb(op, op.V), op.TTL, op.TS))
	case "putbig":
		// an entry larger than the segment size: accepted by Put, rejected by Commit.
		// I == 0: a value of SegmentSize+1 bytes; I > 0: the whole entry is exactly I bytes too large (boundary)
		n := h.Cfg.Seg + 1
		if op.I > 0 && op.I <= 64 {
			n = h.Cfg.Seg - 42 - int64(len(b)) - int64(len(op.Key)) + int64(op.I)
			if n < 0 {
				n = h.Cfg.Seg + 1
			}
		}
		return errRes(tx.Put(b, kb(op, op.Key), make([]byte, n), 0))
	case "del":
		return errRes(tx.Delete(b, kb(op, op.Key)))
	case "get":
		e, err := tx.Get(b, kb(op, op.Key))
		if err != nil {
			return rErr()
		}
		if e == nil {
			return rItems(nil)
		}
		return rV(kvItemStr(string(e.Key), string(e.Value)))
	case "expiry":
		// the instant at which the pair stops being live (what a later read will show): "never", the absolute
		// second for explicitly stamped records, or now+TTL for records that Put stamped with the current time
		e, err := tx.Get(b, kb(op, op.Key))
		if err != nil || e == nil {
			return rErr()
		}
		f := nutsdb.VerifEntryOf(e)
		if f.TTL == 0 {
			return rV("never")
		}
		if d := int64(f.Timestamp) - time.Now().Unix(); d > -86400 && d < 86400 {
			return rV(fmt.Sprintf("now+%d", f.TTL))
		}
		return rV(strconv.FormatUint(f.Timestamp+uint64(f.TTL), 10))
	case "getall":
		return entriesRes(tx.GetAll(b))
	case "rangescan":
		return entriesRes(tx.RangeScan(b, kb(op, op.Key), kb(op, op.Key2)))
	case "prefixscan":
		es, _, err := tx.PrefixScan(b, kb(op, op.Key), op.I, op.Lim)
		return entriesRes(es, err)
	case "prefixsearchscan":
		es, _, err := tx.PrefixSearchScan(b, kb(op, op.Key), op.Re, op.I, op.Lim)
		return entriesRes(es, err)
	case "rpush":
		return errRes(tx.RPush(b, kb(op, op.Key), kbs(op)...))
	case "lpush":
		return errRes(tx.LPush(b, kb(op, op.Key), kbs(op)...))
	case "lpop":
		return valRes(tx.LPop(b, kb(op, op.Key)))
	case "rpop":
		return valRes(tx.RPop(b, kb(op, op.Key)))
	case "lpeek":
		return valRes(tx.LPeek(b, kb(op, op.Key)))
	case "rpeek":
		return valRes(tx.RPeek(b, kb(op, op.Key)))
	case "lsize":
		return nRes(tx.LSize(b, kb(op, op.Key)))
	case "lrange":
		l, err := tx.LRange(b, kb(op, op.Key), op.I, op.J)
		return listRes(l, err, false)
	case "lrem":
		return nRes(tx.LRem(b, kb(op, op.Key), op.I, kb(op, op.V)))
	case "lset":
		return errRes(tx.LSet(b, kb(op, op.Key), op.I, kb(op, op.V)))
	case "ltrim":
		return errRes(tx.LTrim(b, kb(op, op.Key), op.I, op.J))
	case "sadd":
		return errRes(tx.SAdd(b, kb(op, op.Key), kbs(op)...))
	case "srem":
		return errRes(tx.SRem(b, kb(op, op.Key), kbs(op)...))
	case "spop":
		return valRes(tx.SPop(b, kb(op, op.Key)))
	case "sismember":
		return bRes(tx.SIsMember(b, kb(op, op.Key), kb(op, op.V)))
	case "saremembers":
		return bRes(tx.SAreMembers(b, kb(op, op.Key), kbs(op)...))
	case "smembers":
		l, err := tx.SMembers(b, kb(op, op.Key))
		return listRes(l, err, true)
	case "scard":
		return nRes(tx.SCard(b, kb(op, op.Key)))
	case "shaskey":
		return bRes(tx.SHasKey(b, kb(op, op.Key)))
	case "sdiff1":
		l, err := tx.SDiffByOneBucket(b, kb(op, op.Key), kb(op, op.Key2))
		return listRes(l, err, true)
	case "sdiff2":
		l, err := tx.SDiffByTwoBuckets(b, kb(op, op.Key), b2, kb(op, op.Key2))
		return listRes(l, err, true)
	case "sunion1":
		l, err := tx.SUnionByOneBucket(b, kb(op, op.Key), kb(op, op.Key2))
		return listRes(l, err, true)
	case "sunion2":
		l, err := tx.SUnionByTwoBuckets(b, kb(op, op.Key), b2, kb(op, op.Key2))
		return listRes(l, err, true)
	case "smove1":
		return bRes(tx.SMoveByOneBucket(b, kb(op, op.Key), kb(op, op.Key2), kb(op, op.V)))
	case "smove2":
		return bRes(tx.SMoveByTwoBuckets(b, kb(op, op.Key), b2, kb(op, op.Key2), kb(op, op.V)))
	case "zadd":
		return errRes(tx.ZAdd(b, kb(op, op.Key), fval(op.F, op.FNaN%10), kb(op, op.V)))
	case "zmembers":
		mm, err := tx.ZMembers(b)
		if err != nil {
			return rErr()
		}
		items := make([]string, 0, len(mm))
		type kn struct {
			k string
			n *zset.SortedSetNode
		}
		var all []kn
		for k, n := range mm {
			all = append(all, kn{k, n})
		}
		sort.Slice(all, func(i, j int) bool {
			if all[i].n.Score() != all[j].n.Score() {
				return all[i].n.Score() < all[j].n.Score()
			}
			return all[i].k < all[j].k
		})
		for _, x := range all {
			if x.k != x.n.Key() {
				items = append(items, "dictkey-mismatch:"+q(x.k))
			}
			items = append(items, nodeStr(x.n))
		}
		return rItems(items)
	case "zcard":
		return nRes(tx.ZCard(b))
	case "zcount", "zrangebyscore":
		var opts *zset.GetByScoreRangeOptions
		if !op.NilO {
			opts = &zset.GetByScoreRangeOptions{Limit: op.Lim, ExcludeStart: op.ExS, ExcludeEnd: op.ExE}
		}
		f1, f2 := fval(op.F, op.FNaN%10), fval(op.F2, op.FNaN/10)
		if op.K == "zcount" {
			return nRes(tx.ZCount(b, f1, f2, opts))
		}
		return nodesRes(tx.ZRangeByScore(b, f1, f2, opts))
	case "zpopmax":
		return nodeRes(tx.ZPopMax(b))
	case "zpopmin":
		return nodeRes(tx.ZPopMin(b))
	case "zpeekmax":
		return nodeRes(tx.ZPeekMax(b))
	case "zpeekmin":
		return nodeRes(tx.ZPeekMin(b))
	case "zrangebyrank":
		return nodesRes(tx.ZRangeByRank(b, op.I, op.J))
	case "zrank":
		return nRes(tx.ZRank(b, kb(op, op.Key)))
	case "zrevrank":
		return nRes(tx.ZRevRank(b, kb(op, op.Key)))
	case "zscore":
		f, err := tx.ZScore(b, kb(op, op.Key))
		if err != nil {
			return rErr()
		}
		return rF(f)
	case "zgetbykey":
		return nodeRes(tx.ZGetByKey(b, kb(op, op.Key)))
	case "zrem":
		return errRes(tx.ZRem(b, string(op.Key)))
	case "zremrangebyrank":
		return errRes(tx.ZRemRangeByRank(b, op.I, op.J))
	case "findtxid":
		return bRes(tx.FindTxIDOnDisk(uint64(op.I), op.TS))
	case "findondisk":
		e, err := tx.FindOnDisk(uint64(op.I), uint64(op.J), kb(op, op.Key), kb(op, op.Key2))
		if err != nil || e == nil {
			return rErr()
		}
		return rV(kvItemStr(string(e.Key), string(e.Value)))
	case "findleaf":
		_, err := tx.FindLeafOnDisk(int64(op.I), int64(op.J), kb(op, op.Key), kb(op, op.Key2))
		return errRes(err)
	}
	panic("drive: unknown op " + op.K)
}

// ---- scratch directories ----

var scratchRoot string

func scratch() string {
	if scratchRoot != "" {
		return scratchRoot
	}
	r := os.Getenv("VERIF_SCRATCH")
	if r == "" {
		r = "/dev/shm"
		if st, err := os.Stat(r); err != nil || !st.IsDir() {
			r = os.TempDir()
		}
		r = filepath.Join(r, fmt.Sprintf("verif-%d", os.Getpid()))
	}
	_ = os.MkdirAll(r, 0o755)
	scratchRoot = r
	return r
}

func newDir(prefix string) string {
	// every database directory has glob and shell metacharacters and a space in its name
	d, err := os.MkdirTemp(scratch(), prefix+"[0] ?x-")
	if err != nil {
		panic(err)
	}
	return d
}

func datFiles(dir string) int {
	es, _ := os.ReadDir(dir)
	n := 0
	for _, e := range es {
		if strings.HasSuffix(e.Name(), ".dat") {
			n++
		}
	}
	return n
}
