package props

import (
	"fmt"
	"os"
	"regexp"
	"runtime"
	"sort"
	"strconv"
	"strings"
	"sync"
	"sync/atomic"
	"time"

	"github.com/xujiajun/nutsdb"
	"pgregory.net/rapid"
)

// ---- E4: concurrent histories ------------------------------------------------
// Version-stamped workload: every write transaction reads key "ver" (value v),
// writes ver=v+1 and a drawn set of keys stamped v+1 (plus list/set/zset appends
// carrying the stamp in KeyVal mode); every read-only transaction reads ver and a
// drawn set of keys twice. Strict serializability is then decidable exactly.

type ConcTx struct {
	W      bool     `json:"w,omitempty"`
	Keys   []string `json:"keys,omitempty"`
	Manual bool     `json:"manual,omitempty"`
	// Re: a reader also runs PrefixSearchScan("d", "k", Re) - concurrent readers use different expressions
	Re string `json:"re,omitempty"`
	// Fail makes a write transaction end without committing: "fnerr" (the function returns an error after its
	// writes) or "big" (it also puts an entry larger than a segment, so Commit itself fails).
	Fail string `json:"fail,omitempty"`
}

type ConcG struct {
	DB   int      `json:"db"`
	Kind string   `json:"kind,omitempty"` // "" worker, "merge", "backup"
	Txs  []ConcTx `json:"txs,omitempty"`
	N    int      `json:"n,omitempty"` // merge: number of Merge calls; backup: delay in transactions
}

type ConcProg struct {
	DBs   int     `json:"dbs"`
	Yield int     `json:"yield"` // Gosched at every Yield-th hook call (0: never)
	Gs    []ConcG `json:"gs"`
	Seg   int64   `json:"seg"`
	// NoList drops the list append from the writers (Merge duplicates list elements: recorded finding c15-merge-list-duplication)
	NoList bool `json:"nolist,omitempty"`
	// Slow > 0 (backup programs): the database is first filled with Slow sealed 4 MiB segments, so that the copy
	// takes milliseconds, and for every Backup a "late writer" starts a write transaction as soon as it sees the
	// first copied file in the destination - i.e. provably after the backup's copy began. Its write must not be in the copy.
	Slow int `json:"slow,omitempty"`
	// PreMerge (RAM index modes): before the goroutines start, two segments are written and DB.Merge is called once,
	// so the concurrent phase runs on a database that has been merged (whatever state Merge leaves behind is in effect).
	PreMerge bool `json:"premerge,omitempty"`
	// Fresh: two segments are written, then every database is closed and opened again, so the goroutines (and a
	// Merge goroutine) run the very first transactions of a new handle concurrently (lazily created per-handle state).
	Fresh bool `json:"fresh,omitempty"`
}

var concKeys = []string{"k1", "k2", "k3", "k4"}

func genConcProg(maxG int, modes []int, merge, backup bool) *rapid.Generator[Case] {
	return rapid.Custom(func(t *rapid.T) Case {
		merge := merge // per case (a backup program may add a Merge goroutine below)
		segs := []int64{400, 2000, 8192}
		if merge {
			segs = []int64{300, 400, 1000} // several segments, so that Merge has work to do
		}
		c := Case{Cfg: genConfig(modes, segs).Draw(t, "cfg")}
		if backup && !merge && c.Cfg.Mode != 2 && rapid.IntRange(0, 3).Draw(t, "mergetoo") == 2 {
			// a quarter of the RAM-mode backup programs also run a Merge goroutine: Backup may start while Merge is at work
			merge = true
			c.Cfg.Seg = rapid.SampledFrom([]int64{300, 400, 1000}).Draw(t, "mseg")
		}
		p := &ConcProg{DBs: rapid.IntRange(1, 2).Draw(t, "dbs"), Yield: rapid.SampledFrom([]int{0, 1, 2, 3, 5, 8}).Draw(t, "yield")}
		if merge || backup {
			p.DBs = 1
		}
		if merge && Known("c15-merge-list-duplication") {
			p.NoList = true
		}
		if c.Cfg.Mode != 2 && rapid.IntRange(0, 7).Draw(t, "premerge") == 5 {
			p.PreMerge = true
		}
		if rapid.IntRange(0, 3).Draw(t, "fresh") == 2 {
			p.Fresh = true
		}
		ng := rapid.IntRange(2, maxG).Draw(t, "ng")
		for g := 0; g < ng; g++ {
			cg := ConcG{DB: rapid.IntRange(0, p.DBs-1).Draw(t, "db")}
			writer := rapid.IntRange(0, 2).Draw(t, "role") // 0 reader, 1 writer, 2 mixed
			if g == 0 {
				writer = 1
			}
			if g == 1 {
				writer = 0
			}
			ntx := rapid.IntRange(1, 6).Draw(t, "ntx")
			for i := 0; i < ntx; i++ {
				tx := ConcTx{Manual: rapid.Bool().Draw(t, "manual")}
				switch writer {
				case 1:
					tx.W = true
				case 2:
					tx.W = rapid.Bool().Draw(t, "w")
				}
				if tx.W {
					switch rapid.IntRange(0, 13).Draw(t, "fail") {
					case 5:
						tx.Fail = "big"
					case 9:
						tx.Fail = "fnerr"
					}
				}
				if !tx.W {
					tx.Re = rapid.SampledFrom([]string{"", "^[12]$", "[34]", "1|4", "^.$"}).Draw(t, "re")
				}
				nk := rapid.IntRange(1, 3).Draw(t, "nk")
				perm := rapid.Permutation(concKeys).Draw(t, "kperm")
				tx.Keys = perm[:nk]
				cg.Txs = append(cg.Txs, tx)
			}
			p.Gs = append(p.Gs, cg)
		}
		if merge {
			p.Gs = append(p.Gs, ConcG{DB: 0, Kind: "merge", N: rapid.IntRange(1, 4).Draw(t, "nmerge")})
		}
		if backup && (rapid.IntRange(0, 7).Draw(t, "slowcopy") == 3 || os.Getenv("VERIF_FORCE_SLOW") != "") && (c.Cfg.Mode != 2 || os.Getenv("VERIF_FORCE_SLOW") == "sparse") {
			p.Slow = rapid.IntRange(2, 5).Draw(t, "slowsegs")
			c.Cfg.Seg = 4 << 20
		}
		if backup {
			nb := rapid.IntRange(1, 2).Draw(t, "nbackup")
			for i := 0; i < nb; i++ {
				p.Gs = append(p.Gs, ConcG{DB: 0, Kind: "backup", N: rapid.IntRange(0, 3).Draw(t, "bdelay")})
			}
		}
		c.Conc = p
		return c
	})
}

// concRec is one completed transaction of the history.
type concRec struct {
	G, I     int
	DB       int
	W        bool
	Inv, Ret time.Duration
	Ver      int            // version read (reader) or written (writer)
	Vals     map[string]int // key -> stamp observed (0 absent)
	Vals2    map[string]int
	Ver2     int
	Scan     map[string]int // reader: RangeScan over all keys
	Scan2    map[string]int // reader: PrefixScan over all keys
	List     []int          // reader in KeyVal mode: the stamp log
	List2    []int
	Set      []int // reader in KeyVal mode: the stamps in the set, sorted
	Set2     []int
	Err      string
	Kind     string // "", backup
	Dir      string
	Fail     string // the transaction was meant to fail (it must not commit)
	ZCur     int    // reader in KeyVal mode: score of the sorted-set member "cur" (re-scored by every writer), 0 absent, -1 not read
	ZCur2    int
	Re       string         // reader: regular expression of its PrefixSearchScan ("" = not run)
	Scan3    map[string]int // reader: PrefixSearchScan("d","k",Re)
	LateFor  string         // late writer: invoked after a copied file was seen in this backup destination
}

func atoi(b []byte) int {
	n, err := strconv.Atoi(string(b))
	if err != nil {
		return -1
	}
	return n
}

func readVer(tx *nutsdb.Tx) (int, error) {
	e, err := tx.Get("v", []byte("ver"))
	if err != nil || e == nil {
		if os.Getenv("VERIF_DEBUG") != "" {
			fmt.Println("readVer:", e, err)
		}
		return 0, nil // absent: version 0
	}
	return atoi(e.Value), nil
}

func readKeys(tx *nutsdb.Tx, keys []string) map[string]int {
	out := map[string]int{}
	for _, k := range keys {
		e, err := tx.Get("d", []byte(k))
		if err != nil || e == nil {
			out[k] = 0
			continue
		}
		out[k] = atoi(e.Value)
	}
	return out
}

func entriesToMap(es nutsdb.Entries, err error) map[string]int {
	out := map[string]int{}
	if err != nil {
		return out
	}
	for _, e := range es {
		if e != nil {
			out[string(e.Key)] = atoi(e.Value)
		}
	}
	return out
}

func readScans(tx *nutsdb.Tx) (map[string]int, map[string]int) {
	a := entriesToMap(tx.RangeScan("d", []byte("k1"), []byte("k4")))
	es, _, err := tx.PrefixScan("d", []byte("k"), 0, nutsdb.ScanNoLimit)
	b := entriesToMap(es, err)
	return a, b
}

func readList(tx *nutsdb.Tx) []int {
	l, err := tx.LRange("l", []byte("log"), 0, -1)
	if err != nil {
		return nil
	}
	out := make([]int, len(l))
	for i, v := range l {
		out[i] = atoi(v)
	}
	return out
}

// readZCur returns the score of the member "cur", which every writer re-scores to its version.
func readZCur(tx *nutsdb.Tx) int {
	n, err := tx.ZGetByKey("z", []byte("cur"))
	if err != nil || n == nil {
		return 0
	}
	return int(n.Score())
}

func readSet(tx *nutsdb.Tx) []int {
	l, err := tx.SMembers("s", []byte("set"))
	if err != nil {
		return []int{}
	}
	out := make([]int, len(l))
	for i, v := range l {
		out[i] = atoi(v)
	}
	sort.Ints(out)
	return out
}

type concResult struct {
	Recs     []concRec
	Deadlock string
	Panic    string
}

var hookCounter int64

// runConc executes the program and returns the history.
func runConc(c Case, dirs []string, dbs []*nutsdb.DB, backupRoot string) concResult {
	p := c.Conc
	structs := c.Cfg.Mode == 0
	start := time.Now()
	var mu sync.Mutex
	var res concResult
	var wg sync.WaitGroup
	add := func(r concRec) {
		mu.Lock()
		res.Recs = append(res.Recs, r)
		mu.Unlock()
	}
	var progress int64
	doTx := func(gi, i, dbi int, t ConcTx) concRec {
		db := dbs[dbi]
		r := concRec{G: gi, I: i, DB: dbi, W: t.W, Fail: t.Fail, ZCur: -1, ZCur2: -1}
		body := func(tx *nutsdb.Tx) error {
			if t.W {
				v, _ := readVer(tx)
				nv := v + 1
				s := []byte(strconv.Itoa(nv))
				if err := tx.Put("v", []byte("ver"), s, 0); err != nil {
					return err
				}
				for _, k := range t.Keys {
					if err := tx.Put("d", []byte(k), s, 0); err != nil {
						return err
					}
				}
				if structs {
					if !p.NoList {
						if err := tx.RPush("l", []byte("log"), s); err != nil {
							return err
						}
					}
					if err := tx.SAdd("s", []byte("set"), s); err != nil {
						return err
					}
					if err := tx.ZAdd("z", s, float64(nv), s); err != nil {
						return err
					}
					// one member whose score is raised by every writer: a record replayed or rewritten out of order shows
					if err := tx.ZAdd("z", []byte("cur"), float64(nv), s); err != nil {
						return err
					}
				}
				r.Ver = nv
				r.Vals = map[string]int{}
				for _, k := range t.Keys {
					r.Vals[k] = nv
				}
				switch t.Fail {
				case "big":
					if err := tx.Put("d", []byte("big"), make([]byte, c.Cfg.Seg+1), 0); err != nil {
						return err
					}
				case "fnerr":
					return errFn
				}
				return nil
			}
			r.Ver, _ = readVer(tx)
			r.Vals = readKeys(tx, t.Keys)
			r.Scan, r.Scan2 = readScans(tx)
			if t.Re != "" {
				r.Re = t.Re
				es, _, err := tx.PrefixSearchScan("d", []byte("k"), t.Re, 0, nutsdb.ScanNoLimit)
				r.Scan3 = entriesToMap(es, err)
			}
			if structs {
				r.List = readList(tx)
				r.Set = readSet(tx)
				r.ZCur = readZCur(tx)
			}
			runtime.Gosched()
			r.Ver2, _ = readVer(tx)
			r.Vals2 = readKeys(tx, t.Keys)
			if structs {
				r.List2 = readList(tx)
				r.Set2 = readSet(tx)
				r.ZCur2 = readZCur(tx)
			}
			return nil
		}
		r.Inv = time.Since(start)
		var err error
		if t.Manual {
			var tx *nutsdb.Tx
			tx, err = db.Begin(t.W)
			if err == nil {
				if err = body(tx); err != nil {
					_ = tx.Rollback()
				} else if err = tx.Commit(); err != nil {
					_ = tx.Rollback()
				}
			}
		} else if t.W {
			err = db.Update(body)
		} else {
			err = db.View(body)
		}
		r.Ret = time.Since(start)
		if err != nil {
			r.Err = err.Error()
		}
		return r
	}
	for gi, g := range p.Gs {
		wg.Add(1)
		go func(gi int, g ConcG) {
			defer wg.Done()
			defer func() {
				if r := recover(); r != nil {
					mu.Lock()
					res.Panic = fmt.Sprintf("goroutine %d: %v", gi, r)
					mu.Unlock()
				}
			}()
			db := dbs[g.DB]
			switch g.Kind {
			case "merge":
				for i := 0; i < g.N; i++ {
					for atomic.LoadInt64(&progress) < int64(i*2) && time.Since(start) < 200*time.Millisecond {
						runtime.Gosched()
					}
					r := concRec{G: gi, I: i, DB: g.DB, Kind: "merge", Inv: time.Since(start)}
					if err := db.Merge(); err != nil {
						r.Err = err.Error()
					}
					r.Ret = time.Since(start)
					add(r)
				}
				return
			case "backup":
				for atomic.LoadInt64(&progress) < int64(g.N) && time.Since(start) < 200*time.Millisecond {
					runtime.Gosched()
				}
				dir := fmt.Sprintf("%s/bk%d", backupRoot, gi)
				var copyDone int32
				if p.Slow > 0 {
					wg.Add(1)
					go func() {
						defer wg.Done()
						// wait until a copied data file shows up in the destination: the copy (hence the backup's
						// read transaction) has begun; no wall-clock reasoning is involved in the verdict
						for atomic.LoadInt32(&copyDone) == 0 {
							if _, err := os.Stat(dir + "/0.dat"); err == nil {
								lr := doTx(1000+gi, 0, g.DB, ConcTx{W: true, Keys: []string{"k1"}})
								lr.LateFor = dir
								add(lr)
								return
							}
							runtime.Gosched()
						}
					}()
				}
				r := concRec{G: gi, DB: g.DB, Kind: "backup", Dir: dir, Inv: time.Since(start), ZCur: -1, ZCur2: -1}
				if err := db.Backup(dir); err != nil {
					r.Err = err.Error()
				}
				r.Ret = time.Since(start)
				atomic.StoreInt32(&copyDone, 1)
				add(r)
				return
			}
			for i, t := range g.Txs {
				r := doTx(gi, i, g.DB, t)
				add(r)
				atomic.AddInt64(&progress, 1)
			}
		}(gi, g)
	}
	done := make(chan struct{})
	go func() { wg.Wait(); close(done) }()
	// Watchdog. A workload normally takes milliseconds. After 60 s the goroutine dump is examined: it is a
	// deadlock only if, in two samples 5 s apart, every goroutine that is inside nutsdb or inside a worker
	// is parked on a lock; as long as one of them is running, runnable or in a system call the workload is
	// merely slow (loaded machine) and gets up to 15 minutes before the run is declared inconclusive.
	deadline := time.Now().Add(15 * time.Minute)
	wait := 60 * time.Second
	stuck := 0
loop:
	for {
		select {
		case <-done:
			break loop
		case <-time.After(wait):
			dump := allStacks()
			if allWorkersParkedOnLocks(dump) {
				stuck++
				if stuck >= 2 {
					res.Deadlock = dump
					break loop
				}
				wait = 5 * time.Second
				continue
			}
			stuck = 0
			wait = 20 * time.Second
			if time.Now().After(deadline) {
				res.Deadlock = "TIMEOUT-NOT-A-LOCK-WAIT\n" + dump
				break loop
			}
		}
	}
	if res.Deadlock != "" {
		if p := os.Getenv("VERIF_FAIL"); p != "" {
			_ = os.WriteFile(p+".goroutines.txt", []byte(res.Deadlock), 0o644)
		}
	}
	return res
}

func allStacks() string {
	buf := make([]byte, 8<<20)
	n := runtime.Stack(buf, true)
	return string(buf[:n])
}

// allWorkersParkedOnLocks reports whether every goroutine of the dump that is executing library code or a
// worker of the concurrent engine is waiting for a mutex (and at least one such goroutine exists).
func allWorkersParkedOnLocks(dump string) bool {
	relevant, parked := 0, 0
	for _, g := range strings.Split(dump, "\n\n") {
		if !strings.HasPrefix(g, "goroutine ") {
			continue
		}
		if !strings.Contains(g, "github.com/xujiajun/nutsdb") && !strings.Contains(g, "props.runConc.func") {
			continue
		}
		if strings.Contains(g, "props.allStacks") {
			continue // the watchdog itself
		}
		relevant++
		hdr := g
		if i := strings.Index(g, "\n"); i >= 0 {
			hdr = g[:i]
		}
		state := ""
		if i := strings.Index(hdr, "["); i >= 0 {
			state = hdr[i+1:]
		}
		lockWait := strings.HasPrefix(state, "sync.RWMutex") || strings.HasPrefix(state, "sync.Mutex") || strings.HasPrefix(state, "semacquire") || strings.HasPrefix(state, "sync.WaitGroup")
		if lockWait {
			parked++
		}
	}
	return relevant > 0 && parked == relevant
}

// checkConc verifies the history of one database.
func checkConc(recs []concRec, db int, structs, noList bool, final map[string]int, finalVer int, finalList, finalSet []int, haveFinal bool) error {
	lists := structs && !noList
	var writers, readers []concRec
	for _, r := range recs {
		if r.DB != db {
			continue
		}
		if r.Kind == "merge" {
			if r.Err != "" && !strings.Contains(r.Err, "at least 2") {
				return fmt.Errorf("Merge failed: %s", r.Err)
			}
			continue
		}
		if r.Kind == "backup" {
			if r.Err != "" {
				return fmt.Errorf("Backup failed: %s", r.Err)
			}
			readers = append(readers, r)
			continue
		}
		if r.Fail != "" {
			if r.Err == "" {
				return fmt.Errorf("transaction g%d/%d (%s) reported success although it had to fail", r.G, r.I, r.Fail)
			}
			continue // a failed transaction is not part of the history; its writes must not show (versions stay 1..W)
		}
		if r.Err != "" {
			return fmt.Errorf("transaction g%d/%d failed: %s", r.G, r.I, r.Err)
		}
		if r.W {
			writers = append(writers, r)
		} else {
			readers = append(readers, r)
		}
	}
	sort.Slice(writers, func(i, j int) bool { return writers[i].Ver < writers[j].Ver })
	for i, w := range writers {
		if w.Ver != i+1 {
			return fmt.Errorf("write transactions do not have versions 1..%d (lost update or duplicate): got %v", len(writers), versOf(writers))
		}
	}
	// real-time order of writers
	for i := range writers {
		for j := range writers {
			if writers[i].Ret < writers[j].Inv && writers[i].Ver > writers[j].Ver {
				return fmt.Errorf("writer with version %d returned before the writer with version %d was invoked", writers[i].Ver, writers[j].Ver)
			}
		}
	}
	// state after each version
	stateAt := func(v int) map[string]int {
		m := map[string]int{}
		for _, w := range writers {
			if w.Ver > v {
				break
			}
			// keys written are not in the record; recover from the program via Vals (set by caller)
			for k := range w.Vals {
				m[k] = w.Ver
			}
		}
		return m
	}
	if haveFinal {
		if finalVer != len(writers) {
			return fmt.Errorf("final version is %d but %d write transactions committed", finalVer, len(writers))
		}
		want := stateAt(len(writers))
		for _, k := range concKeys {
			if final[k] != want[k] {
				return fmt.Errorf("final value of %s carries stamp %d, the serial order of the writers gives %d", k, final[k], want[k])
			}
		}
		if structs {
			if z, ok := final["\x00zcur"]; ok && z != len(writers) {
				return fmt.Errorf("final score of the sorted-set member re-scored by every writer is %d, %d write transactions committed", z, len(writers))
			}
			if len(finalSet) != len(writers) {
				return fmt.Errorf("final stamp set has %d members, %d write transactions committed: %v", len(finalSet), len(writers), finalSet)
			}
			for i, x := range finalSet {
				if x != i+1 {
					return fmt.Errorf("final stamp set is not {1..W}: %v", finalSet)
				}
			}
		}
		if lists {
			if len(finalList) != len(writers) {
				return fmt.Errorf("final stamp log has %d entries, %d write transactions committed: %v", len(finalList), len(writers), finalList)
			}
			for i, x := range finalList {
				if x != i+1 {
					return fmt.Errorf("final stamp log is not 1..W in order: %v", finalList)
				}
			}
		}
	}
	for _, r := range readers {
		if r.Kind != "backup" {
			if r.Ver != r.Ver2 || fmt.Sprint(r.Vals) != fmt.Sprint(r.Vals2) || fmt.Sprint(r.List) != fmt.Sprint(r.List2) || fmt.Sprint(r.Set) != fmt.Sprint(r.Set2) || r.ZCur != r.ZCur2 {
				return fmt.Errorf("read-only transaction g%d/%d saw the state change: ver %d then %d, %v then %v, list %v then %v, set %v then %v", r.G, r.I, r.Ver, r.Ver2, r.Vals, r.Vals2, r.List, r.List2, r.Set, r.Set2)
			}
		}
		v := r.Ver
		if v < 0 || v > len(writers) {
			return fmt.Errorf("reader g%d/%d saw version %d, only %d writers exist", r.G, r.I, v, len(writers))
		}
		want := stateAt(v)
		for k, got := range r.Vals {
			if got != want[k] {
				return fmt.Errorf("reader g%d/%d (%s) saw version %d but %s with stamp %d (snapshot of version %d has %d): not a consistent snapshot", r.G, r.I, r.Kind, v, k, got, v, want[k])
			}
		}
		if r.Scan != nil {
			for _, k := range concKeys {
				if r.Scan[k] != want[k] || r.Scan2[k] != want[k] {
					return fmt.Errorf("reader g%d/%d (%s) saw version %d but its scans show %s with stamp %d (RangeScan) / %d (PrefixScan), snapshot of version %d has %d", r.G, r.I, r.Kind, v, k, r.Scan[k], r.Scan2[k], v, want[k])
				}
			}
		}
		if r.Re != "" {
			re := regexp.MustCompile(r.Re)
			for _, k := range concKeys {
				exp := 0
				if re.MatchString(k[1:]) {
					exp = want[k]
				}
				if r.Scan3[k] != exp {
					return fmt.Errorf("reader g%d/%d saw version %d but its PrefixSearchScan(%q) shows %s with stamp %d, expected %d (0 = not in the result)", r.G, r.I, v, r.Re, k, r.Scan3[k], exp)
				}
			}
		}
		if r.Kind == "backup" {
			for _, w := range writers {
				if w.LateFor == r.Dir && v >= w.Ver {
					return fmt.Errorf("the backup %s shows version %d, which includes the write transaction g%d (version %d) that was invoked only after a copied file had appeared in the destination: the copy is not the state at the start of the backup's read transaction", r.Dir, v, w.G, w.Ver)
				}
			}
		}
		if structs && r.ZCur >= 0 && r.ZCur != v {
			return fmt.Errorf("reader g%d/%d (%s) saw version %d but the sorted-set member re-scored by every writer has score %d", r.G, r.I, r.Kind, v, r.ZCur)
		}
		if structs && r.Set != nil {
			if len(r.Set) != v {
				return fmt.Errorf("reader g%d/%d (%s) saw version %d but a stamp set of %d members: %v", r.G, r.I, r.Kind, v, len(r.Set), r.Set)
			}
			for i, x := range r.Set {
				if x != i+1 {
					return fmt.Errorf("reader g%d/%d (%s) saw a stamp set that is not {1..v}: %v", r.G, r.I, r.Kind, r.Set)
				}
			}
		}
		if lists && r.List != nil || lists && v > 0 && r.Kind != "backup" {
			if len(r.List) != v {
				return fmt.Errorf("reader g%d/%d saw version %d but a stamp log of %d entries: %v", r.G, r.I, v, len(r.List), r.List)
			}
			for i, x := range r.List {
				if x != i+1 {
					return fmt.Errorf("reader g%d/%d saw a stamp log that is not 1..v: %v", r.G, r.I, r.List)
				}
			}
		}
		// real time
		lo, hi := 0, 0
		for _, w := range writers {
			if w.Ret < r.Inv && w.Ver > lo {
				lo = w.Ver
			}
			if w.Inv < r.Ret && w.Ver > hi {
				hi = w.Ver
			}
		}
		if v < lo || v > hi {
			return fmt.Errorf("reader g%d/%d (%s) saw version %d outside its real-time window [%d,%d]", r.G, r.I, r.Kind, v, lo, hi)
		}
	}
	return nil
}

func versOf(ws []concRec) []int {
	var out []int
	for _, w := range ws {
		out = append(out, w.Ver)
	}
	return out
}

// ---- race reports ----

var raceLogRe = regexp.MustCompile(`log_path=(\S+)`)

func raceLogFile() string {
	m := raceLogRe.FindStringSubmatch(os.Getenv("GORACE"))
	if m == nil {
		return ""
	}
	return fmt.Sprintf("%s.%d", m[1], os.Getpid())
}

var raceSeen int

type raceReport struct {
	Text string
	Sig  string
	Lib  bool
}

var frameRe = regexp.MustCompile(`(?m)^\s+(github\.com/xujiajun/nutsdb[^\s(]*(?:\([^)]*\))?[^\s(]*)\(`)

// newRaceReports returns the data race reports written since the last call.
func newRaceReports() []raceReport {
	f := raceLogFile()
	if f == "" {
		return nil
	}
	b, err := os.ReadFile(f)
	if err != nil {
		return nil
	}
	parts := strings.Split(string(b), "==================")
	var reps []string
	for _, p := range parts {
		if strings.Contains(p, "WARNING: DATA RACE") {
			reps = append(reps, p)
		}
	}
	var out []raceReport
	for _, r := range reps[minInt(raceSeen, len(reps)):] {
		// the two access stacks come first, separated by blank lines
		secs := strings.Split(strings.TrimSpace(r), "\n\n")
		var fns []string
		for _, s := range secs {
			if len(fns) == 2 {
				break
			}
			if strings.Contains(s, " at 0x") {
				fn := "?"
				for _, l := range strings.Split(s, "\n") {
					t := strings.TrimSpace(l)
					if strings.HasPrefix(t, "github.com/xujiajun/nutsdb") && !strings.HasPrefix(t, "/") {
						fn = strings.TrimPrefix(t, "github.com/xujiajun/nutsdb")
						if i := strings.LastIndex(fn, "("); i > 0 {
							fn = fn[:i]
						}
						break
					}
				}
				fns = append(fns, fn)
			}
		}
		sort.Strings(fns)
		rep := raceReport{Text: r, Sig: strings.Join(fns, " <-> ")}
		for _, f := range fns {
			if f != "?" {
				rep.Lib = true
			}
		}
		out = append(out, rep)
	}
	raceSeen = len(reps)
	return out
}

// knownRaceSigs returns the signature regexps of recorded race findings.
func knownRace(sig string) string {
	loadKnown()
	if os.Getenv("VERIF_NO_EXCLUSIONS") != "" {
		return ""
	}
	for _, e := range knownList {
		if e.Kind != "finding" {
			continue
		}
		i := strings.Index(e.Text, "sig=")
		if i < 0 {
			continue
		}
		pat := strings.Fields(e.Text[i+4:])[0]
		if ok, _ := regexp.MatchString(pat, sig); ok {
			return e.ID
		}
	}
	return ""
}
