package props

import (
	"fmt"
	"math"
	"math/rand"
	"os"
	"path/filepath"
	"regexp"
	"runtime/debug"
	"strings"
	"testing"

	"pgregory.net/rapid"
)

// C20 — no argument or state makes an API call panic.
// Programs over EVERY exported method of DB and Tx with boundary-heavy arguments, on
// populated structures, in writable and read-only transactions, after Commit/Rollback
// of the transaction used, and before/after Close. Oracle: no panic anywhere (a call,
// Begin, Commit, Rollback, Update/View, Merge, Backup, Close, Open).

var c20APIs = []string{
	"put", "putts", "putbig", "del", "get", "getall", "rangescan", "prefixscan", "prefixsearchscan",
	"rpush", "lpush", "lpop", "rpop", "lpeek", "rpeek", "lsize", "lrange", "lrem", "lset", "ltrim",
	"sadd", "srem", "spop", "sismember", "saremembers", "smembers", "scard", "shaskey",
	"sdiff1", "sdiff2", "sunion1", "sunion2", "smove1", "smove2",
	"zadd", "zmembers", "zcard", "zcount", "zrangebyscore", "zpopmax", "zpopmin", "zpeekmax", "zpeekmin",
	"zrangebyrank", "zrank", "zrevrank", "zscore", "zgetbykey", "zrem", "zremrangebyrank",
	"findtxid", "findondisk", "findleaf",
}

var c20Ints = []int{math.MinInt64, math.MinInt64 + 1, -(1 << 32), -(1 << 31), -100, -5, -4, -3, -2, -1, 0, 1, 2, 3, 4, 5, 100,
	1<<31 - 1, 1 << 31, 1 << 32, math.MaxInt64 - 1, math.MaxInt64}
var c20Floats = []float64{-math.MaxFloat64, -2, -1, math.Copysign(0, -1), 0, 1, 1.5, 2, 3, math.SmallestNonzeroFloat64, math.MaxFloat64}
var c20Regs = []string{"", ".*", "a", "^a|b$", "(", "[", "\\", "(?P<", "a{1001}", "a**", ")", "\x00", "(?i)A"}
var c20Keys = []string{"", "a", "b", "a|b", "|", "l", "s", "\x00", "\xff\xff", "zz"}
var c20Buckets = []string{"", "b", "b|", "nosuch", "|"}
var c20TTL = []uint32{0, 0, 0, 1, math.MaxUint32}
var c20TS = []uint64{0, 1, 1 << 62, math.MaxUint64}

func c20Int(t *rapid.T, label string) int {
	if rapid.IntRange(0, 9).Draw(t, label+"kind") < 6 {
		return rapid.IntRange(-6, 6).Draw(t, label)
	}
	return rapid.SampledFrom(c20Ints).Draw(t, label)
}

func genC20Op(t *rapid.T) Op {
	op := Op{K: rapid.SampledFrom(c20APIs).Draw(t, "api")}
	pick := func(label string, hot []string, all []string) S {
		if rapid.IntRange(0, 9).Draw(t, label+"hot") < 7 {
			return S(rapid.SampledFrom(hot).Draw(t, label))
		}
		if rapid.IntRange(0, 19).Draw(t, label+"long") == 0 {
			return S(strings.Repeat("k", rapid.SampledFrom([]int{255, 256, 70000}).Draw(t, label+"len")))
		}
		return S(rapid.SampledFrom(all).Draw(t, label))
	}
	op.B = pick("b", []string{"", "b"}, c20Buckets)
	op.B2 = pick("b2", []string{"", "b"}, c20Buckets)
	op.Key = pick("key", []string{"a", "l", "s", ""}, c20Keys)
	op.Key2 = pick("key2", []string{"a", "l", "s", "b"}, c20Keys)
	op.V = pick("v", []string{"a", "", "|"}, c20Keys)
	nv := rapid.IntRange(0, 3).Draw(t, "nvs")
	for i := 0; i < nv; i++ {
		op.Vs = append(op.Vs, pick("vs", []string{"a", "", "|", "b"}, c20Keys))
	}
	op.Nil = rapid.IntRange(0, 3).Draw(t, "nil") == 0
	op.I, op.J, op.Lim = c20Int(t, "i"), c20Int(t, "j"), c20Int(t, "lim")
	op.TTL = rapid.SampledFrom(c20TTL).Draw(t, "ttl")
	op.TS = rapid.SampledFrom(c20TS).Draw(t, "ts")
	op.F = rapid.SampledFrom(c20Floats).Draw(t, "f")
	op.F2 = rapid.SampledFrom(c20Floats).Draw(t, "f2")
	op.FNaN = rapid.SampledFrom([]int{0, 0, 0, 0, 1, 2, 3, 10, 20, 30, 11, 23, 32}).Draw(t, "fnan")
	op.ExS, op.ExE, op.NilO = rapid.Bool().Draw(t, "exs"), rapid.Bool().Draw(t, "exe"), rapid.IntRange(0, 3).Draw(t, "nilo") == 0
	op.Re = rapid.SampledFrom(c20Regs).Draw(t, "re")
	if op.K == "findtxid" || op.K == "findondisk" || op.K == "findleaf" {
		// file ids and offsets: mostly ones that exist
		if rapid.Bool().Draw(t, "fidsmall") {
			op.I = rapid.IntRange(0, 3).Draw(t, "fid")
		}
		if rapid.Bool().Draw(t, "offsmall") {
			op.J = rapid.SampledFrom([]int{0, 1, 35, 70, 140, 4096}).Draw(t, "off")
		}
	}
	return op
}

// populate: structures that are non-empty in an empty-named and a normal bucket.
func c20Population(t *rapid.T) []Step {
	var steps []Step
	for _, b := range []S{"", "b"} {
		st := Step{K: "tx", Managed: true}
		n := rapid.IntRange(0, 3).Draw(t, "popn")
		st.Ops = append(st.Ops,
			Op{K: "put", B: b, Key: "a", V: "1"}, Op{K: "put", B: b, Key: "a|b", V: "2"}, Op{K: "put", B: b, Key: "b", V: "3"},
			Op{K: "rpush", B: b, Key: "l", Vs: []S{"a", "|", "", "a"}[:n+1]},
			Op{K: "sadd", B: b, Key: "s", Vs: []S{"a", "b", "", "|"}[:n+1]},
			Op{K: "sadd", B: b, Key: "a", Vs: []S{"a"}},
			Op{K: "zadd", B: b, Key: "a", F: 1, V: "x"}, Op{K: "zadd", B: b, Key: "b", F: 1, V: "y"})
		if n >= 2 {
			st.Ops = append(st.Ops, Op{K: "zadd", B: b, Key: "", F: 0, V: ""}, Op{K: "zadd", B: b, Key: "l", F: -1, V: "z"}, Op{K: "del", B: b, Key: "b"})
		}
		steps = append(steps, st)
	}
	return steps
}

func genC20Case() *rapid.Generator[Case] {
	return rapid.Custom(func(t *rapid.T) Case {
		c := Case{Cfg: genConfig([]int{0, 0, 1, 2}, []int64{200, 512, 8192}).Draw(t, "cfg"), Seed: int64(rapid.IntRange(1, 1<<20).Draw(t, "rseed"))}
		c.Steps = c20Population(t)
		n := rapid.IntRange(1, 10).Draw(t, "nsteps")
		for i := 0; i < n; i++ {
			r := rapid.IntRange(0, 99).Draw(t, "stepkind")
			switch {
			case r < 6:
				c.Steps = append(c.Steps, Step{K: "close"})
			case r < 12:
				c.Steps = append(c.Steps, Step{K: "reopen"})
			case r < 16:
				c.Steps = append(c.Steps, Step{K: "merge"})
			case r < 20:
				c.Steps = append(c.Steps, Step{K: "backup"})
			default:
				st := Step{K: "tx", Managed: rapid.Bool().Draw(t, "managed")}
				if rapid.IntRange(0, 3).Draw(t, "ro") == 0 {
					st.K = "view"
				}
				if rapid.IntRange(0, 4).Draw(t, "end") == 0 {
					st.End = "rollback"
				}
				nops := rapid.IntRange(1, 5).Draw(t, "nops")
				for j := 0; j < nops; j++ {
					st.Ops = append(st.Ops, genC20Op(t))
				}
				if !st.Managed && rapid.IntRange(0, 2).Draw(t, "after") == 0 {
					na := rapid.IntRange(1, 3).Draw(t, "nafter")
					for j := 0; j < na; j++ {
						st.After = append(st.After, genC20Op(t))
					}
				}
				c.Steps = append(c.Steps, st)
			}
		}
		return c
	})
}

func opExtreme(op Op) bool {
	big := func(x int) bool { return x > 1000 || x < -1000 }
	if op.Nil || op.FNaN != 0 || big(op.I) || big(op.J) || big(op.Lim) || strings.Contains(string(op.Key), "|") || len(op.Key) > 200 {
		return true
	}
	if _, err := regexp.Compile(op.Re); err != nil && op.K == "prefixsearchscan" {
		return true
	}
	return op.I < 0 || op.J < 0 || op.I > op.J
}

// known C20 findings are selected by the API name and the innermost nutsdb frame of the panic
func c20Known(msg string) string {
	loadKnown()
	if os.Getenv("VERIF_NO_EXCLUSIONS") != "" {
		return ""
	}
	for _, e := range knownList {
		if e.Kind != "finding" || e.Prop != "C20" {
			continue
		}
		i := strings.Index(e.Text, "panicsite=")
		if i < 0 {
			continue
		}
		pat := strings.Fields(e.Text[i+len("panicsite="):])[0]
		if ok, _ := regexp.MatchString(pat, msg); ok {
			return e.ID
		}
	}
	return ""
}

func runC20(c Case, st *Stats) error {
	if c.Extra["closerace"] != nil {
		return runC20Close(c, st)
	}
	rand.Seed(c.Seed)
	root := newDir("c20")
	defer os.RemoveAll(root)
	dir := filepath.Join(root, "db")
	h, err := OpenDB(dir, c.Cfg)
	if err != nil {
		return fmt.Errorf("open of an empty directory failed: %v", err)
	}
	closed := false
	defer func() {
		if !closed && !h.Dead {
			h.Close()
		}
	}()
	guard := func(what string, f func() error) (msg string) {
		defer func() {
			if r := recover(); r != nil {
				msg = fmt.Sprintf("%s: %v at %s", what, r, panicSite(debug.Stack()))
				h.Dead = true
			}
		}()
		_ = f()
		return ""
	}
	var classes []string
	extremeOnData, afterFinish, afterClose := 0, 0, 0
	calls := 0
	report := func(i int, msg string) error {
		if id := c20Known(msg); id != "" {
			st.Deviate(id)
			return errSkip
		}
		return fmt.Errorf("step %d: panic: %s", i, msg)
	}
	finish := func(err error) error {
		if err == errSkip {
			st.Eval(c.JSON(), false, "stopped-at-known-finding")
			return nil
		}
		return err
	}
	for i, s := range c.Steps {
		switch s.K {
		case "tx", "view":
			tr := h.RunTx(s, s.K == "tx", nil)
			for j, r := range tr.Res {
				if r.Panic != "" {
					// a panic inside a call leaves the transaction (and the lock) behind: stop here
					h.Dead = true
					return finish(report(i, fmt.Sprintf("call %d %s: %s", j, s.Ops[j], r.Panic)))
				}
			}
			if tr.Panic != "" {
				return finish(report(i, fmt.Sprintf("%s (calls: %v)", tr.Panic, s.Ops)))
			}
			for j, r := range tr.AfterRes {
				if r.Panic != "" {
					return finish(report(i, fmt.Sprintf("call %s on the finished transaction: %s", s.After[j%len(s.After)], r.Panic)))
				}
			}
			calls += len(tr.Res) + len(tr.AfterRes)
			for _, op := range s.Ops {
				if opExtreme(op) && (op.B == "" || op.B == "b") && i >= 2 {
					extremeOnData++
				}
			}
			afterFinish += len(tr.AfterRes)
			if closed {
				afterClose++
			}
		case "close":
			if m := guard("Close", func() error { return h.DB.Close() }); m != "" {
				return finish(report(i, m))
			}
			if closed {
				afterClose++
			}
			closed = true
		case "reopen":
			if !closed {
				if m := guard("Close", func() error { return h.DB.Close() }); m != "" {
					return finish(report(i, m))
				}
			}
			h.DB = nil
			if err := h.Reopen(); err != nil {
				if strings.HasPrefix(err.Error(), "PANIC") {
					return finish(report(i, err.Error()))
				}
				// an Open error is C09's business, not a panic: stop the program here
				closed = true
				st.Eval(c.JSON(), false, "stopped-open-error")
				return nil
			}
			closed = false
		case "merge":
			if m := guard("Merge", func() error { return h.DB.Merge() }); m != "" {
				return finish(report(i, m))
			}
			if closed {
				afterClose++
			}
		case "backup":
			bdir := filepath.Join(root, fmt.Sprintf("bk%d", i))
			if m := guard("Backup", func() error { return h.DB.Backup(bdir) }); m != "" {
				return finish(report(i, m))
			}
			if closed {
				afterClose++
			}
		}
	}
	st.Sub(calls)
	if extremeOnData > 0 {
		classes = append(classes, "extreme-argument-on-populated-bucket")
	}
	if afterFinish > 0 {
		classes = append(classes, "calls-on-finished-tx")
	}
	if afterClose > 0 {
		classes = append(classes, "calls-after-close")
	}
	classes = append(classes, fmt.Sprintf("mode%d", c.Cfg.Mode))
	st.Eval(c.JSON(), extremeOnData > 0 || afterFinish > 0 || afterClose > 0, classes...)
	return nil
}

func init() { register("C20", runC20) }

func TestC20(t *testing.T) {
	runProperty(t, "C20", genC20Case(), runC20)
}
