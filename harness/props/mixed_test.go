package props

import (
	"pgregory.net/rapid"
)

// Mixed-structure history generator shared by C04, C08, C12, C13, C15, C19.

type mixedParams struct {
	Modes      []int
	Segs       []int64
	Buckets    []string // candidate bucket names (used for every structure)
	MinB, MaxB int
	MaxSteps   int
	MaxOps     int
	ReopenPct  int
	MergePct   int
	Structs    bool // lists/sets/zsets when the mode allows
	ReadsInTx  bool // allow read ops inside write transactions
	Fill       bool
	NoSPop     bool // SPop may return any member, so differential checks do not generate it
	LongBigSeg bool // with 1 KiB and larger segments up to 3x MaxSteps steps (a sealed segment then holds more than 8 transactions)
	FaultPct   int  // per cent of multi-call transactions whose Commit gets an injected write error (both twins get the same one)
	MultiKV    int  // > 1: some transactions consist of 2..MultiKV key/value writes spread over the buckets
	ClockPct   int  // per cent of cases that run under the virtual clock (clock steps; puts that expire within seconds of it)
}

func genMixedOp(structs bool, buckets, kvKeys, sKeys []string, fill bool, clk *clockGen) func(t *rapid.T) Op {
	lop := genListOp(buckets, sKeys)
	sop := genSetOp(buckets, sKeys)
	zop := genZOp(buckets)
	return func(t *rapid.T) Op {
		if !structs {
			return genKVWriteClocked(buckets, kvKeys, fill, clk).Draw(t, "kvop")
		}
		switch rapid.IntRange(0, 9).Draw(t, "struct") {
		case 0, 1, 2, 3:
			return genKVWriteClocked(buckets, kvKeys, fill, clk).Draw(t, "kvop")
		case 4, 5:
			return lop(t)
		case 6, 7:
			return sop(t)
		default:
			return zop(t)
		}
	}
}

func genMixedCase(p mixedParams) *rapid.Generator[Case] {
	return rapid.Custom(func(t *rapid.T) Case {
		c := Case{Cfg: genConfig(p.Modes, p.Segs).Draw(t, "cfg"), Seed: int64(rapid.IntRange(1, 1<<20).Draw(t, "rseed"))}
		nb := rapid.IntRange(p.MinB, p.MaxB).Draw(t, "nb")
		perm := rapid.Permutation(p.Buckets).Draw(t, "bperm")
		buckets := perm[:nb]
		shape := genKeyShape(t, keyAlphabet, 2, 6, 3, p.MaxOps, false)
		kvKeys := shape.Keys
		sKeys := genKeys(keyAlphabetNoSep, 1, 3, 2).Draw(t, "skeys")
		structs := p.Structs && c.Cfg.Mode == 0
		var clk *clockGen
		if p.ClockPct > 0 && rapid.IntRange(0, 99).Draw(t, "clocked") < p.ClockPct {
			clk = &clockGen{Now: clockBase + int64(rapid.IntRange(0, 1000).Draw(t, "clock0"))}
			c.Steps = append(c.Steps, Step{K: "clock", T: clk.Now})
		}
		gop := genMixedOp(structs, buckets, kvKeys, sKeys, p.Fill, clk)
		maxSteps := p.MaxSteps
		if p.LongBigSeg && c.Cfg.Seg >= 1024 {
			maxSteps *= 3
		}
		if p.MergePct > 0 && c.Cfg.Seg <= 200 && rapid.IntRange(0, 5).Draw(t, "manysegs") == 3 {
			maxSteps *= 3 // more than ten segments before a Merge (file ids with two digits)
		}
		n := rapid.IntRange(1, maxSteps).Draw(t, "nsteps")
		for i := 0; i < n; i++ {
			r := rapid.IntRange(0, 99).Draw(t, "stepkind")
			if clk != nil && rapid.IntRange(0, 6).Draw(t, "isclock") == 3 {
				c.Steps = append(c.Steps, clk.step(t))
			}
			switch {
			case r < p.ReopenPct:
				c.Steps = append(c.Steps, Step{K: "reopen"})
			case r < p.ReopenPct+p.MergePct:
				c.Steps = append(c.Steps, Step{K: "merge"})
			case structs && p.MaxOps >= 2 && p.ReadsInTx && rapid.IntRange(0, 11).Draw(t, "noopatcommit") == 7:
				c.Steps = append(c.Steps, genNoopAtCommit(t, buckets[0], i)...)
			case structs && p.MergePct > 0 && rapid.IntRange(0, 15).Draw(t, "emptied") == 9:
				c.Steps = append(c.Steps, genAfterMergeOnEmptied(t, buckets[0], c.Cfg.Seg)...)
			case p.MultiKV > 1 && rapid.IntRange(0, 2).Draw(t, "multikv") == 1:
				// one transaction writing key/value pairs of several buckets (bucket+key concatenations may coincide)
				st := Step{K: "tx", Managed: rapid.Bool().Draw(t, "managed")}
				for j, nops := 0, rapid.IntRange(2, p.MultiKV).Draw(t, "nops"); j < nops; j++ {
					st.Ops = append(st.Ops, genKVWrite(buckets, kvKeys, false).Draw(t, "kvop"))
				}
				c.Steps = append(c.Steps, st)
			default:
				nops := rapid.IntRange(1, shape.MaxOps).Draw(t, "nops")
				st := Step{K: "tx", Managed: rapid.Bool().Draw(t, "managed")}
				for j := 0; j < nops; j++ {
					op := gop(t)
					if p.NoSPop && op.K == "spop" {
						op = Op{K: "srem", B: op.B, Key: op.Key, Vs: []S{"a"}}
					}
					if !p.ReadsInTx && !isWrite(op.K) {
						continue
					}
					st.Ops = append(st.Ops, op)
				}
				if len(st.Ops) == 0 {
					st.Ops = append(st.Ops, genKVWrite(buckets, kvKeys, false).Draw(t, "kvop"))
				}
				if p.FaultPct > 0 && len(st.Ops) >= 2 && rapid.IntRange(0, 99).Draw(t, "faulty") < p.FaultPct {
					// an I/O error while writing record At (with Partial bytes of it written): the records before it stay on disk, uncommitted
					st.Fault = &Fault{Kind: "write", At: rapid.IntRange(0, 3).Draw(t, "faultat"), Partial: rapid.SampledFrom([]int{0, 7, 43, 1 << 20}).Draw(t, "faultpartial")}
				}
				c.Steps = append(c.Steps, st)
			}
		}
		return c
	})
}

// genNoopAtCommit builds two steps on a fresh list key of known size: a push of n elements, then ONE transaction
// that pops p of them and afterwards calls LSet / LTrim / LRem / a further pop with arguments that are valid for the
// list as it is when the calls are made (reads inside a transaction see the state at Begin) but refer to elements
// that no longer exist when the calls are applied at Commit - and again when the log is replayed by Open.
func genNoopAtCommit(t *rapid.T, bucket string, serial int) []Step {
	key := S("np" + string(rune('a'+serial%26)))
	n := rapid.IntRange(1, 4).Draw(t, "npn")
	vals := []S{"a", "b", "a", "c"}[:n]
	p := rapid.IntRange(1, n).Draw(t, "npp")
	tx := Step{K: "tx", Managed: rapid.Bool().Draw(t, "npmanaged")}
	for i := 0; i < p; i++ {
		tx.Ops = append(tx.Ops, Op{K: rapid.SampledFrom([]string{"rpop", "lpop"}).Draw(t, "nppop"), B: S(bucket), Key: key})
	}
	switch rapid.IntRange(0, 4).Draw(t, "npkind") {
	case 0:
		tx.Ops = append(tx.Ops, Op{K: "lset", B: S(bucket), Key: key, I: n - 1, V: "z"})
	case 1:
		tx.Ops = append(tx.Ops, Op{K: "ltrim", B: S(bucket), Key: key, I: n - 1, J: n - 1})
	case 2:
		tx.Ops = append(tx.Ops, Op{K: "lrem", B: S(bucket), Key: key, I: n, V: "a"})
	case 3:
		tx.Ops = append(tx.Ops, Op{K: "lset", B: S(bucket), Key: key, I: 0, V: "z"}, Op{K: "ltrim", B: S(bucket), Key: key, I: 0, J: n - 1})
	default:
		for i := p; i < n+1; i++ {
			tx.Ops = append(tx.Ops, Op{K: "rpop", B: S(bucket), Key: key})
		}
	}
	return []Step{{K: "tx", Ops: []Op{{K: "rpush", B: S(bucket), Key: key, Vs: vals}}}, tx}
}

// genAfterMergeOnEmptied builds a step sequence around Merge: a set or sorted-set structure is filled and emptied
// again, enough key/value data is written for at least two segments, Merge runs (it drops every record of the
// emptied structure), then the emptied structure is touched again (a removal that finds nothing, or a new member)
// and the database is reopened.
func genAfterMergeOnEmptied(t *rapid.T, bucket string, seg int64) []Step {
	// a bucket of its own: after Merge and a reopen an emptied structure no longer exists (recorded finding
	// c15-merge-forgets-emptied-set-keys), so later drawn calls must not land on it
	b := S("emb")
	var fill, empty, again Op
	if rapid.Bool().Draw(t, "emz") {
		fill, empty = Op{K: "zadd", B: b, Key: "em", F: 1, V: "x"}, Op{K: rapid.SampledFrom([]string{"zrem", "zpopmax", "zpopmin"}).Draw(t, "emzrem"), B: b, Key: "em"}
		again = Op{K: rapid.SampledFrom([]string{"zrem", "zpopmin", "zadd", "zremrangebyrank"}).Draw(t, "emzagain"), B: b, Key: "em", F: 2, V: "y", I: 1, J: 1}
	} else {
		fill, empty = Op{K: "sadd", B: b, Key: "em", Vs: []S{"x"}}, Op{K: rapid.SampledFrom([]string{"srem", "spop"}).Draw(t, "emsrem"), B: b, Key: "em", Vs: []S{"x"}}
		again = Op{K: rapid.SampledFrom([]string{"srem", "sadd", "spop"}).Draw(t, "emsagain"), B: b, Key: "em", Vs: []S{"x"}}
	}
	n := int(seg) / 2
	if n > 100 {
		n = 100
	}
	big := S(make([]byte, 0, n))
	for i := 0; i < n-50 && i < 60; i++ {
		big += "f"
	}
	steps := []Step{{K: "tx", Ops: []Op{fill}}, {K: "tx", Ops: []Op{empty}}}
	for i := 0; i < 4; i++ {
		steps = append(steps, Step{K: "tx", Ops: []Op{{K: "put", B: b, Key: S("fl" + string(rune('0'+i))), V: big}}})
	}
	steps = append(steps, Step{K: "merge"}, Step{K: "tx", Ops: []Op{again}}, Step{K: "reopen"})
	return steps
}

// writesOf returns the (structure,bucket) pairs a step may modify.
func writesOf(st Step) map[string]bool {
	out := map[string]bool{}
	for _, op := range st.Ops {
		if !isWrite(op.K) {
			continue
		}
		s := structOf(op.K)
		out[s+"\x00"+string(op.B)] = true
		if op.K == "smove2" {
			out[s+"\x00"+string(op.B2)] = true
		}
	}
	return out
}
