package props

import (
	"fmt"
	"math/rand"
	"os"
	"runtime"
	"sort"
	"strings"
	"time"
)

// Recorded execution of a workload and enumeration of its crash images.

type txInfo struct {
	Step      int
	Committed bool
	ObsIdx    int // index into Obs of the state after this transaction (if committed)
}

type recording struct {
	Evs     []Ev
	Obs     []*Observation // O_0 .. O_n (after each committed transaction)
	Tx      map[int]*txInfo
	Dir     string
	U       *Universe
	OO      ObsOpts
	Skipped string // non-empty: the workload was abandoned (panic etc.)
	MergeOK int
	Failed  int
	Faults  int // transactions whose Commit got an injected write error
}

// record runs the case with a recorder attached. keepDir leaves the directory in place.
func record(c Case, fault *FaultSpec) (*recording, *DBH, *Recorder, error) {
	rand.Seed(c.Seed)
	dir := newDir("rec")
	rec := StartRecorder(dir)
	rec.Fault = fault
	rc := &recording{Dir: dir, Tx: map[int]*txInfo{}, U: UniverseOf(c), OO: obsForCase(c, nil)}
	rec.Mark("open-begin")
	h, err := OpenDB(dir, c.Cfg)
	if err != nil {
		rec.Stop()
		return nil, nil, nil, fmt.Errorf("open of an empty directory failed: %v", err)
	}
	rec.Mark("open-returned")
	o := Observe(h, rc.U, rc.OO)
	rc.Obs = append(rc.Obs, o)
	for i, s := range c.Steps {
		switch s.K {
		case "tx":
			s = resolveFills(h, s)
			if s.Fault != nil && fault == nil {
				// an injected write error inside this Commit: the records written before it stay in the segment, uncommitted
				rec.Fault = &FaultSpec{Step: i, Kind: s.Fault.Kind, At: s.Fault.At, Partial: s.Fault.Partial}
			}
			rec.Mark(fmt.Sprintf("begin %d", i))
			tr := h.RunTx(s, true, nil)
			if s.Fault != nil && fault == nil {
				if rec.Fault.Fired {
					rc.Faults++
					if tr.Committed {
						return rc, h, rec, fmt.Errorf("step %d: Commit reported success although a write error was injected", i)
					}
				}
				rec.Fault = nil
			}
			if tr.Panic != "" || tr.BeginErr != nil {
				rc.Skipped = "panic in transaction: " + tr.Panic
				rec.Mark(fmt.Sprintf("end %d panic", i))
				rc.Evs = rec.Evs
				return rc, h, rec, nil
			}
			for _, r := range tr.Res {
				if r.Panic != "" {
					rc.Skipped = "panic in call: " + r.Panic
				}
			}
			if rc.Skipped != "" {
				rec.Mark(fmt.Sprintf("end %d panic", i))
				rc.Evs = rec.Evs
				return rc, h, rec, nil
			}
			ti := &txInfo{Step: i, Committed: tr.Committed}
			if tr.Committed {
				rec.Mark(fmt.Sprintf("end %d ok", i))
				o := Observe(h, rc.U, rc.OO)
				if o.Panic != "" {
					rc.Skipped = "panic in observation: " + o.Panic
					rc.Evs = rec.Evs
					return rc, h, rec, nil
				}
				rc.Obs = append(rc.Obs, o)
				ti.ObsIdx = len(rc.Obs) - 1
			} else {
				rec.Mark(fmt.Sprintf("end %d fail", i))
				rc.Failed++
			}
			rc.Tx[i] = ti
		case "reopen":
			rec.Mark("reopen-begin")
			if err := h.Reopen(); err != nil {
				rc.Evs = rec.Evs
				return rc, h, rec, fmt.Errorf("step %d: clean reopen failed: %v", i, err)
			}
			rec.Mark("reopen-returned")
		case "merge":
			rec.Mark("merge-begin")
			err := h.Merge()
			if h.Dead {
				rc.Skipped = "panic in merge: " + err.Error()
				rc.Evs = rec.Evs
				return rc, h, rec, nil
			}
			if err == nil {
				rc.MergeOK++
			}
			rec.Mark("merge-returned")
		}
	}
	rc.Evs = rec.Evs
	return rc, h, rec, nil
}

// crashPoint describes one image.
type crashPoint struct {
	Pos      int // events [0,Pos) applied
	Torn     int // -1 or number of bytes of event Pos applied
	C        int // commits returned before Pos
	InFlight int // step index of a transaction in flight, or -1
	InMerge  bool
	InOpen   bool
}

func (cp crashPoint) String() string {
	return fmt.Sprintf("pos=%d torn=%d commits=%d inflight=%d merge=%v", cp.Pos, cp.Torn, cp.C, cp.InFlight, cp.InMerge)
}

// context computes, for every position, how many commits returned and what is in flight.
func crashContexts(evs []Ev) []crashPoint {
	out := make([]crashPoint, len(evs)+1)
	c, inflight, inMerge, inOpen := 0, -1, false, false
	for p := 0; p <= len(evs); p++ {
		out[p] = crashPoint{Pos: p, Torn: -1, C: c, InFlight: inflight, InMerge: inMerge, InOpen: inOpen}
		if p == len(evs) {
			break
		}
		e := evs[p]
		if e.Kind != "mark" {
			continue
		}
		var n int
		switch {
		case strings.HasPrefix(e.Mark, "begin "):
			fmt.Sscanf(e.Mark, "begin %d", &n)
			inflight = n
		case strings.HasPrefix(e.Mark, "end "):
			if strings.HasSuffix(e.Mark, " ok") {
				c++
			}
			inflight = -1
		case e.Mark == "merge-begin":
			inMerge = true
		case e.Mark == "merge-returned":
			inMerge = false
		case e.Mark == "open-begin" || e.Mark == "reopen-begin":
			inOpen = true
		case e.Mark == "open-returned" || e.Mark == "reopen-returned":
			inOpen = false
		}
	}
	return out
}

// imageVerdict opens the image like after a crash and classifies the outcome.
type imageResult struct {
	OpenErr error
	Obs     *Observation
}

func openImage(fs *memFS, dir string, cfg Config, u *Universe, oo ObsOpts) imageResult {
	if err := fs.materialize(dir); err != nil {
		panic(fmt.Sprintf("materialize: %v", err))
	}
	var m0, m1 runtime.MemStats
	runtime.ReadMemStats(&m0)
	h, err := OpenDB(dir, cfg)
	runtime.ReadMemStats(&m1)
	if grown := m1.TotalAlloc - m0.TotalAlloc; grown > openAllocLimit {
		// the images are a few KiB: an Open that allocates hundreds of MiB trusts size fields of a torn record
		// (up to 3 x 4 GiB) and dies for lack of memory on a smaller machine - the database is then unopenable
		if h != nil {
			h.Close()
		}
		return imageResult{OpenErr: fmt.Errorf("Open allocated %d MiB for a directory of %d bytes (size fields of a torn or overwritten record are trusted)", grown>>20, fs.totalBytes())}
	}
	if err != nil {
		return imageResult{OpenErr: err}
	}
	o := Observe(h, u, oo)
	h.Close()
	return imageResult{Obs: o}
}

// openAllocLimit bounds what Open may allocate on a crash image (the images are at most a few hundred KiB).
const openAllocLimit = 256 << 20

func (fs *memFS) totalBytes() int {
	n := 0
	for _, b := range fs.files {
		n += len(b)
	}
	return n
}

// continueAfterRecovery uses the database recovered from a crash image: one more write transaction
// (variant 0: a small record; 1: a record of about 60 % of a segment; 2: a record that fills a whole
// segment, so the log always rotates past whatever the crash left at the tail), then Close and Open.
// The new write must not disturb the recovered contents, the second Open must succeed and show the
// same contents plus the new pair.
func continueAfterRecovery(dir string, cfg Config, u *Universe, oo ObsOpts, recovered *Observation, variant int, cp crashPoint) error {
	h, err := OpenDB(dir, cfg)
	if err != nil {
		return fmt.Errorf("second Open of the crash image at %s failed: %v", cp, err)
	}
	defer func() { h.Close() }()
	const bucket, key = "post", "k"
	// many alignments of the new record's end relative to what the crash left behind (half of them within
	// the first dozen bytes after the shortest possible record)
	n := 1 + (cp.Pos*13+cp.Torn+1)%90
	if (cp.Pos+cp.Torn)%2 == 0 {
		n = 1 + (cp.Pos*7+cp.Torn+1)%12
	}
	switch variant {
	case 1:
		n = int(cfg.Seg) * 6 / 10
	case 2:
		n = int(cfg.Seg) - 42 - len(bucket) - len(key)
	}
	if fit := int(cfg.Seg) - 42 - len(bucket) - len(key); n > fit {
		n = fit // never larger than one segment can hold
	}
	val := strings.Repeat("p", n)
	tr := h.RunTx(Step{K: "tx", Ops: []Op{{K: "put", B: bucket, Key: key, V: S(val)}}}, true, nil)
	if tr.Panic != "" || tr.BeginErr != nil || tr.CommitErr != nil || !tr.Committed {
		return fmt.Errorf("after recovery from the crash at %s a put of %d bytes failed: panic=%q begin=%v commit=%v", cp, n, tr.Panic, tr.BeginErr, tr.CommitErr)
	}
	o1 := Observe(h, u, oo)
	if d := DiffObs(recovered, o1); d != "" {
		return fmt.Errorf("after recovery from the crash at %s a put into another bucket changed the recovered contents: %s", cp, d)
	}
	if err := h.Reopen(); err != nil {
		return fmt.Errorf("crash at %s, recovery, one more put of %d bytes, Close: the next Open failed: %v", cp, n, err)
	}
	o2 := Observe(h, u, oo)
	if d := DiffObs(o1, o2); d != "" {
		return fmt.Errorf("crash at %s, recovery, one more put, Close, Open: contents changed: %s", cp, d)
	}
	tr = h.RunTx(Step{K: "view", Ops: []Op{{K: "get", B: bucket, Key: key}}}, false, nil)
	if len(tr.Res) != 1 || tr.Res[0].Err || len(tr.Res[0].Items) != 1 || !strings.Contains(tr.Res[0].Items[0], q(val)) {
		return fmt.Errorf("crash at %s, recovery, one more put of %d bytes, Close, Open: the pair written after recovery is lost (%v)", cp, n, tr.Res)
	}
	return nil
}

type crashOpts struct {
	Continue   bool // after every 3rd torn image and every 4th other image: write, close and open again
	CheckState bool // C10/C16: recovered state must be O_c or O_{c+1}
	OnlyMerge  bool // C16: only positions inside Merge
	Torn       bool
	MaxImages  int
}

type crashStats struct {
	Images, Distinct, InCommit, TornHeader, InMerge, InRotation, Continued int
}

// exploreCrashes enumerates the crash images of a recording.
func exploreCrashes(c Case, rc *recording, co crashOpts, st *Stats, prop string) (crashStats, error) {
	var cs crashStats
	if co.Continue {
		// the continuation writes to the recovered database: like any restarted process it must not share a
		// millisecond (transaction ids are clock based) with the recorded run, which may have ended microseconds ago
		waitMs()
	}
	ctx := crashContexts(rc.Evs)
	imgDir := newDir("img")
	defer os.RemoveAll(imgDir)
	seen := map[uint64]bool{}
	fs := newMemFS()
	check := func(img *memFS, cp crashPoint) error {
		hsh := img.hash()
		key := fmt.Sprintf("%x/%d/%d", hsh, cp.C, cp.InFlight)
		if seen[hash64(key)] {
			return nil
		}
		seen[hash64(key)] = true
		cs.Images++
		res := openImage(img, imgDir, c.Cfg, rc.U, rc.OO)
		if res.OpenErr != nil {
			return fmt.Errorf("Open failed on the crash image at %s: %v", cp, res.OpenErr)
		}
		if res.Obs.Panic != "" {
			return fmt.Errorf("reads panicked on the crash image at %s: %s", cp, res.Obs.Panic)
		}
		if co.Continue && ((cp.Torn >= 0 && cs.Images%3 == 0) || (cp.Torn < 0 && cs.Images%4 == 1)) {
			cs.Continued++
			if err := continueAfterRecovery(imgDir, c.Cfg, rc.U, rc.OO, res.Obs, cs.Continued%3, cp); err != nil {
				return err
			}
		}
		if !co.CheckState {
			return nil
		}
		want := []*Observation{rc.Obs[minInt(cp.C, len(rc.Obs)-1)]}
		if cp.InFlight >= 0 {
			if ti := rc.Tx[cp.InFlight]; ti != nil && ti.Committed {
				want = append(want, rc.Obs[ti.ObsIdx])
			}
		}
		var diffs []string
		for _, w := range want {
			d := DiffObs(w, res.Obs)
			if d == "" {
				return nil
			}
			diffs = append(diffs, d)
		}
		return fmt.Errorf("state after crash at %s is neither the state of the %d returned commits nor that plus the in-flight transaction: %s", cp, cp.C, strings.Join(diffs, " || "))
	}
	for p := 0; p <= len(rc.Evs); p++ {
		cp := ctx[p]
		inScope := !co.OnlyMerge || cp.InMerge
		if inScope && (p == len(rc.Evs) || rc.Evs[p].Kind != "mark") {
			if cp.InFlight >= 0 {
				cs.InCommit++
			}
			if cp.InMerge {
				cs.InMerge++
			}
			if err := check(fs, cp); err != nil {
				return cs, err
			}
			if p < len(rc.Evs) && rc.Evs[p].Kind == "write" && co.Torn {
				for _, t := range tornPoints(rc.Evs[p]) {
					if t == 0 {
						continue // identical to the untorn image at p
					}
					img := fs.clone()
					img.apply(rc.Evs[p], t)
					tcp := cp
					tcp.Torn = t
					if t < 42 {
						cs.TornHeader++
					}
					if err := check(img, tcp); err != nil {
						return cs, err
					}
				}
			}
		}
		if p < len(rc.Evs) {
			fs.apply(rc.Evs[p], -1)
		}
		if co.MaxImages > 0 && cs.Images > co.MaxImages {
			break
		}
	}
	cs.Distinct = len(seen)
	return cs, nil
}

func minInt(a, b int) int {
	if a < b {
		return a
	}
	return b
}

// waitMs is used before a simulated restart that will write: a real process
// cannot crash and restart within the same millisecond.
func waitMs() { time.Sleep(2 * time.Millisecond) }

// dumpImage lists the records of every data segment of an image (debugging aid, VERIF_DEBUG).
func dumpImage(fs *memFS) string {
	var names []string
	for n := range fs.files {
		names = append(names, n)
	}
	sort.Strings(names)
	var sb strings.Builder
	for _, n := range names {
		b := fs.files[n]
		fmt.Fprintf(&sb, "%s (%d bytes)\n", n, len(b))
		if !strings.HasSuffix(n, ".dat") {
			continue
		}
		off := 0
		for off+42 <= len(b) {
			if allZero(b[off : off+42]) {
				break
			}
			le := func(o, w int) uint64 {
				var v uint64
				for i := w - 1; i >= 0; i-- {
					v = v<<8 | uint64(b[off+o+i])
				}
				return v
			}
			ks, vs, bsz := int(le(12, 4)), int(le(16, 4)), int(le(26, 4))
			end := off + 42 + bsz + ks + vs
			if end > len(b) || ks > 1<<20 || vs > 1<<20 || bsz > 1<<20 {
				fmt.Fprintf(&sb, "  @%d torn/garbage header\n", off)
				break
			}
			fmt.Fprintf(&sb, "  @%d tx=%d status=%d ds=%d flag=%d bucket=%q key=%q val=%q\n", off, le(34, 8), le(30, 2), le(32, 2), le(20, 2),
				b[off+42:off+42+bsz], b[off+42+bsz:off+42+bsz+ks], b[off+42+bsz+ks:end])
			off = end
		}
	}
	return sb.String()
}

// ---- power-loss images (C11) ----
// Per file the durable content is its content at its last sync event (absent if
// never synced); truncations, writes and removals since then are volatile: any
// subset of them may have reached the disk, the last kept write possibly torn.

type plStats struct {
	Images, WithVolatile, Positions int
}

func explorePowerLoss(c Case, rc *recording, st *Stats) (plStats, error) {
	var ps plStats
	ctx := crashContexts(rc.Evs)
	imgDir := newDir("pl")
	defer os.RemoveAll(imgDir)
	seen := map[uint64]bool{}
	cur := newMemFS()
	durable := map[string][]byte{} // file -> content at last sync
	var vol []int                  // indexes of volatile unit events (truncate, write, remove)
	check := func(img *memFS, cp crashPoint, what string) error {
		key := fmt.Sprintf("%x/%d/%d", img.hash(), cp.C, cp.InFlight)
		if seen[hash64(key)] {
			return nil
		}
		seen[hash64(key)] = true
		ps.Images++
		res := openImage(img, imgDir, c.Cfg, rc.U, rc.OO)
		if res.OpenErr != nil {
			return fmt.Errorf("Open failed on the power-loss image at %s (%s): %v", cp, what, res.OpenErr)
		}
		if res.Obs.Panic != "" {
			return fmt.Errorf("reads panicked on the power-loss image at %s (%s): %s", cp, what, res.Obs.Panic)
		}
		want := []*Observation{rc.Obs[minInt(cp.C, len(rc.Obs)-1)]}
		if cp.InFlight >= 0 {
			if ti := rc.Tx[cp.InFlight]; ti != nil && ti.Committed {
				want = append(want, rc.Obs[ti.ObsIdx])
			}
		}
		var diffs []string
		for _, w := range want {
			d := DiffObs(w, res.Obs)
			if d == "" {
				return nil
			}
			diffs = append(diffs, d)
		}
		if os.Getenv("VERIF_DEBUG") != "" {
			fmt.Println("IMAGE:\n" + dumpImage(img))
		}
		return fmt.Errorf("state after power loss at %s (%s) is neither the state of the %d returned commits nor that plus the in-flight transaction: %s", cp, what, cp.C, strings.Join(diffs, " || "))
	}
	build := func(keep map[int]bool, tornLast bool) *memFS {
		img := newMemFS()
		for d := range cur.dirs {
			img.dirs[d] = true
		}
		for f, b := range durable {
			img.files[f] = b
		}
		last := -1
		for _, idx := range vol {
			if keep[idx] {
				last = idx
			}
		}
		for _, idx := range vol {
			if !keep[idx] {
				continue
			}
			e := rc.Evs[idx]
			if e.Kind != "remove" {
				if _, ok := img.files[e.Path]; !ok {
					img.files[e.Path] = []byte{}
				}
			}
			if tornLast && idx == last && e.Kind == "write" {
				img.apply(e, len(e.Data)/2)
			} else {
				img.apply(e, -1)
			}
		}
		return img
	}
	for p := 0; p <= len(rc.Evs); p++ {
		cp := ctx[p]
		if p == len(rc.Evs) || rc.Evs[p].Kind != "mark" {
			ps.Positions++
			if len(vol) > 0 {
				ps.WithVolatile++
			}
			// subsets of the volatile events
			var masks []map[int]bool
			n := len(vol)
			if n <= 3 {
				for m := 0; m < 1<<n; m++ {
					k := map[int]bool{}
					for i, idx := range vol {
						if m&(1<<i) != 0 {
							k[idx] = true
						}
					}
					masks = append(masks, k)
				}
			} else {
				none, all := map[int]bool{}, map[int]bool{}
				for _, idx := range vol {
					all[idx] = true
				}
				masks = append(masks, none, all)
				for _, idx := range vol {
					one := map[int]bool{idx: true}
					but := map[int]bool{}
					for _, j := range vol {
						if j != idx {
							but[j] = true
						}
					}
					masks = append(masks, one, but)
				}
				// every prefix
				pre := map[int]bool{}
				for _, idx := range vol {
					pre[idx] = true
					cp := map[int]bool{}
					for k := range pre {
						cp[k] = true
					}
					masks = append(masks, cp)
				}
			}
			// removals reach the disk in the order they were issued (journalled directory updates): if a
			// removal is durable, so is every earlier one; the undone removals are a suffix (stated assumption)
			for _, k := range masks {
				lastRm := -1
				for _, idx := range vol {
					if k[idx] && rc.Evs[idx].Kind == "remove" {
						lastRm = idx
					}
				}
				for _, idx := range vol {
					if idx < lastRm && rc.Evs[idx].Kind == "remove" {
						k[idx] = true
					}
				}
			}
			for _, k := range masks {
				if err := check(build(k, false), cp, fmt.Sprintf("%d of %d volatile operations kept", len(k), n)); err != nil {
					return ps, err
				}
				if len(k) > 0 {
					if err := check(build(k, true), cp, fmt.Sprintf("%d of %d volatile operations kept, last write torn", len(k), n)); err != nil {
						return ps, err
					}
				}
			}
		}
		if p < len(rc.Evs) {
			e := rc.Evs[p]
			cur.apply(e, -1)
			switch e.Kind {
			case "truncate", "write", "remove":
				vol = append(vol, p)
			case "sync":
				if b, ok := cur.files[e.Path]; ok {
					durable[e.Path] = b
				}
				var nv []int
				for _, idx := range vol {
					if rc.Evs[idx].Path != e.Path || rc.Evs[idx].Kind == "remove" {
						nv = append(nv, idx)
					}
				}
				vol = nv
			}
		}
	}
	return ps, nil
}
