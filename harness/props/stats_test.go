package props

import (
	"bufio"
	"encoding/json"
	"fmt"
	"hash/fnv"
	"os"
	"path/filepath"
	"runtime"
	"strings"
	"sync"
	"testing"
	"time"

	"pgregory.net/rapid"
)

// Stats collects what a run covered; flushed to $VERIF_OUT as JSON.
type Stats struct {
	mu         sync.Mutex
	Prop       string `json:"prop"`
	Evals      int    `json:"evaluations"`
	nontriv    map[uint64]struct{}
	NonTrivial int                    `json:"distinct_nontrivial"`
	Classes    map[string]int         `json:"classes"`
	Samples    []json.RawMessage      `json:"samples"`
	Excluded   map[string]int         `json:"excluded"`
	Deviations map[string]int         `json:"deviations_applied"`
	Extra      map[string]interface{} `json:"extra"`
	Exhaustive bool                   `json:"exhaustive"`
	SubEvals   int                    `json:"sub_evaluations"` // inner enumerations (images, pages, flips)
	Hashes     []uint64               `json:"nontrivial_hashes"`
	maxSamples int
}

func NewStats(prop string) *Stats {
	return &Stats{Prop: prop, nontriv: map[uint64]struct{}{}, Classes: map[string]int{}, Excluded: map[string]int{},
		Deviations: map[string]int{}, Extra: map[string]interface{}{}, maxSamples: 3}
}

func hash64(s string) uint64 {
	h := fnv.New64a()
	h.Write([]byte(s))
	return h.Sum64()
}

// Eval records one evaluated case.
func (s *Stats) Eval(caseJSON string, nontrivial bool, classes ...string) {
	s.mu.Lock()
	defer s.mu.Unlock()
	s.Evals++
	for _, c := range classes {
		s.Classes[c]++
	}
	if nontrivial {
		h := hash64(caseJSON)
		if _, ok := s.nontriv[h]; !ok {
			s.nontriv[h] = struct{}{}
			if len(s.Samples) < s.maxSamples && len(caseJSON) < 6000 {
				s.Samples = append(s.Samples, json.RawMessage(caseJSON))
			}
		}
	}
}

// NonTrivKey marks a distinct non-trivial item that is not a whole case (e.g. a crash image).
func (s *Stats) NonTrivKey(key string) {
	s.mu.Lock()
	s.nontriv[hash64(key)] = struct{}{}
	s.mu.Unlock()
}

func (s *Stats) Class(c string, n int) {
	s.mu.Lock()
	s.Classes[c] += n
	s.mu.Unlock()
}

func (s *Stats) Sub(n int) {
	s.mu.Lock()
	s.SubEvals += n
	s.mu.Unlock()
}

func (s *Stats) Exclude(id string) {
	s.mu.Lock()
	s.Excluded[id]++
	s.mu.Unlock()
}

func (s *Stats) Deviate(id string) {
	s.mu.Lock()
	s.Deviations[id]++
	s.mu.Unlock()
}

func (s *Stats) Sample(v interface{}) {
	s.mu.Lock()
	defer s.mu.Unlock()
	if len(s.Samples) < s.maxSamples {
		b, _ := json.Marshal(v)
		s.Samples = append(s.Samples, b)
	}
}

func (s *Stats) Flush() {
	s.mu.Lock()
	defer s.mu.Unlock()
	s.NonTrivial = len(s.nontriv)
	s.Hashes = s.Hashes[:0]
	for h := range s.nontriv {
		s.Hashes = append(s.Hashes, h)
	}
	out := os.Getenv("VERIF_OUT")
	if out == "" {
		return
	}
	b, _ := json.MarshalIndent(s, "", " ")
	_ = os.WriteFile(out, b, 0o644)
}

// ---- failure files ----

// FailRecord is the replay file format.
type FailRecord struct {
	Property string          `json:"property"`
	Case     json.RawMessage `json:"case"`
	Message  string          `json:"message"`
	Sig      string          `json:"signature,omitempty"`
}

func failPath() string {
	p := os.Getenv("VERIF_FAIL")
	if p == "" {
		p = filepath.Join(scratch(), "last_fail.json")
	}
	return p
}

func writeFail(prop string, caseJSON string, msg string) {
	fr := FailRecord{Property: prop, Case: json.RawMessage(caseJSON), Message: msg}
	b, _ := json.MarshalIndent(fr, "", " ")
	_ = os.WriteFile(failPath(), b, 0o644)
}

// ---- known findings registry ----

type knownEntry struct {
	Kind, Prop, ID, Text string
}

var (
	knownOnce sync.Once
	knownList []knownEntry
)

func loadKnown() {
	knownOnce.Do(func() {
		p := os.Getenv("VERIF_KNOWN")
		if p == "" {
			p = "/verif/KNOWN_FINDINGS.txt"
		}
		f, err := os.Open(p)
		if err != nil {
			return
		}
		defer f.Close()
		sc := bufio.NewScanner(f)
		for sc.Scan() {
			l := strings.TrimSpace(sc.Text())
			if l == "" || l[0] == '#' {
				continue
			}
			var e knownEntry
			switch {
			case strings.HasPrefix(l, "finding:"):
				e.Kind = "finding"
			case strings.HasPrefix(l, "fixed:"):
				e.Kind = "fixed"
			default:
				continue
			}
			for _, f := range strings.Fields(l) {
				if strings.HasPrefix(f, "property=") {
					e.Prop = strings.TrimPrefix(f, "property=")
				}
				if strings.HasPrefix(f, "id=") {
					e.ID = strings.TrimPrefix(f, "id=")
				}
			}
			e.Text = l
			knownList = append(knownList, e)
		}
	})
}

// Known reports whether a recorded (unfixed) finding with this id is listed.
// Generators and oracles use it to construct around the finding's trigger.
func Known(id string) bool {
	loadKnown()
	if os.Getenv("VERIF_NO_EXCLUSIONS") != "" {
		return false
	}
	for _, e := range knownList {
		if e.Kind == "finding" && e.ID == id {
			return true
		}
	}
	return false
}

// ---- property registry and runner ----

// RunFunc executes one case and returns a non-nil error on a violation.
type RunFunc func(c Case, st *Stats) error

var registry = map[string]RunFunc{}

func register(prop string, f RunFunc) { registry[prop] = f }

func envInt(name string, def int) int {
	if v := os.Getenv(name); v != "" {
		var n int
		if _, err := fmt.Sscanf(v, "%d", &n); err == nil {
			return n
		}
	}
	return def
}

// runProperty drives a rapid search for prop.
func runProperty(t *testing.T, prop string, gen *rapid.Generator[Case], run RunFunc) {
	st := NewStats(prop)
	defer st.Flush()
	// Time budget: when VERIF_SOFT_DEADLINE_S seconds have passed the remaining cases are not run (they return at
	// once and are counted as such), so that a slow machine ends the run with fewer evaluated cases instead of
	// running into the go test deadline. Never a verdict.
	soft := time.Duration(envInt("VERIF_SOFT_DEADLINE_S", 0)) * time.Second
	start := time.Now()
	rapid.Check(t, func(rt *rapid.T) {
		if soft > 0 && time.Since(start) > soft {
			st.Class("cases-not-run-after-the-time-budget", 1)
			return
		}
		c := gen.Draw(rt, "case")
		c.Prop = prop
		if err := safeRun(run, c, st); err != nil {
			writeFail(prop, c.JSON(), err.Error())
			if _, ok := err.(fatalViolation); ok {
				// a deadlocked database cannot be shrunk (every attempt would wait for the watchdog again and the
				// parked goroutines are never released): report the case as it is and stop this process
				st.Flush()
				fmt.Printf("%s violated (not shrunk): %v\ncase: %s\n", prop, err, c.JSON())
				os.Exit(1)
			}
			rt.Fatalf("%s violated: %v\ncase: %s", prop, err, c.JSON())
		}
	})
}

// fatalViolation is a violation after which the process cannot go on (deadlock).
type fatalViolation struct{ msg string }

func (f fatalViolation) Error() string { return f.msg }

func safeRun(run RunFunc, c Case, st *Stats) (err error) {
	defer func() {
		if r := recover(); r != nil {
			err = fmt.Errorf("HARNESS-PANIC: %v", r)
			panic(r) // harness bugs must be loud
		}
	}()
	setClock(0) // every case starts on the wall clock; a clocked case sets its virtual time in its first step
	defer setClock(0)
	return run(c, st)
}

// TestReplay re-executes the case in $VERIF_REPLAY without rapid.
func TestReplay(t *testing.T) {
	p := os.Getenv("VERIF_REPLAY")
	if p == "" {
		t.Skip("no VERIF_REPLAY")
	}
	b, err := os.ReadFile(p)
	if err != nil {
		t.Fatalf("read replay: %v", err)
	}
	var fr FailRecord
	if err := json.Unmarshal(b, &fr); err != nil {
		t.Fatalf("parse replay: %v", err)
	}
	var c Case
	if err := json.Unmarshal(fr.Case, &c); err != nil {
		t.Fatalf("parse case: %v", err)
	}
	run, ok := registry[c.Prop]
	if !ok {
		t.Fatalf("no runner for %q", c.Prop)
	}
	st := NewStats(c.Prop)
	if err := run(c, st); err != nil {
		fmt.Printf("REPLAY-VIOLATION property=%s message=%s\n", fr.Property, strings.ReplaceAll(err.Error(), "\n", " | "))
		t.Fail()
		return
	}
	fmt.Printf("REPLAY-OK property=%s\n", fr.Property)
}

func envTier() string { return os.Getenv("VERIF_TIER") }

// evalFast is Eval that only serializes the case when it is non-trivial.
func (s *Stats) evalFast(c Case, nontrivial bool, classes ...string) {
	if nontrivial {
		s.Eval(c.JSON(), true, classes...)
		return
	}
	s.mu.Lock()
	s.Evals++
	for _, cl := range classes {
		s.Classes[cl]++
	}
	s.mu.Unlock()
}

func TestMain(m *testing.M) {
	code := m.Run()
	if os.Getenv("VERIF_MEMSTATS") != "" {
		var ms runtime.MemStats
		runtime.GC()
		runtime.ReadMemStats(&ms)
		fmt.Printf("MEMSTATS heap_inuse=%dMB heap_objects=%d sys=%dMB goroutines=%d\n", ms.HeapInuse>>20, ms.HeapObjects, ms.Sys>>20, runtime.NumGoroutine())
	}
	if fuzzStats != nil { // corpus replay of a fuzz target in a plain run
		fuzzExecs = 499
		fuzzFlush()
	}
	if os.Getenv("VERIF_SCRATCH") == "" && scratchRoot != "" {
		os.RemoveAll(scratchRoot)
	}
	os.Exit(code)
}
