package props

import (
	"fmt"
	"math/rand"
	"os"
	"strings"
	"testing"
)

// C15 — Merge does not change the logical contents (differential twin:
// database A runs the history, database B the same history without Merge).

// emptiedStructure reports whether op addresses a set key or a sorted-set bucket that holds no member according
// to the observation ob. Used for the recorded finding c15-merge-forgets-emptied-set-keys: after Merge and a
// reopen such a structure no longer exists, so a call on it returns "not found" where it is a no-op without Merge.
func emptiedStructure(ob *Observation, op Op) bool {
	if ob == nil {
		return false
	}
	m := ob.Map()
	none := func(label string) bool {
		v, ok := m[label]
		return ok && v == "NONE"
	}
	switch structOf(op.K) {
	case "z":
		return none(fmt.Sprintf("z %q zcard", string(op.B)))
	case "s":
		ok := none(fmt.Sprintf("s %q %q scard", string(op.B), string(op.Key)))
		if op.Key2 != "" || strings.HasPrefix(op.K, "smove") || strings.HasPrefix(op.K, "sdiff") || strings.HasPrefix(op.K, "sunion") {
			b2 := string(op.B)
			if strings.HasSuffix(op.K, "2") {
				b2 = string(op.B2)
			}
			ok = ok || none(fmt.Sprintf("s %q %q scard", b2, string(op.Key2)))
		}
		return ok
	}
	return false
}

func runC15(c Case, st *Stats) error {
	rand.Seed(c.Seed)
	if Known("c15-merge-list-duplication") {
		// known finding: Merge with list data; construct around it by dropping list calls
		dropped := false
		var steps []Step
		for _, s := range c.Steps {
			if s.K == "tx" {
				ns := s
				ns.Ops = nil
				for _, op := range s.Ops {
					if structOf(op.K) == "l" {
						dropped = true
						continue
					}
					ns.Ops = append(ns.Ops, op)
				}
				if len(ns.Ops) == 0 {
					continue
				}
				s = ns
			}
			steps = append(steps, s)
		}
		if dropped {
			st.Exclude("c15-merge-list-duplication")
			c.Steps = steps
		}
	}
	dirA, dirB := newDir("c15a"), newDir("c15b")
	defer os.RemoveAll(dirA)
	defer os.RemoveAll(dirB)
	a, err := OpenDB(dirA, c.Cfg)
	if err != nil {
		return fmt.Errorf("open failed: %v", err)
	}
	defer func() { a.Close() }()
	b, err := OpenDB(dirB, c.Cfg)
	if err != nil {
		return fmt.Errorf("open failed: %v", err)
	}
	defer func() { b.Close() }()
	// fault injection only (no trace): a faulty transaction fails in both databases at the same record
	recA, recB := StartRecorder(dirA), StartRecorder(dirB)
	recA.FaultOnly, recB.FaultOnly = true, true
	defer recA.Stop()
	defer recB.Stop()
	faultsFired := 0
	u := UniverseOf(c)
	oo := obsForCase(c, st)
	merges, effective, twice, writeAfter, reopenAfterWrite := 0, 0, 0, false, false
	lastWasMerge := false
	var lastTwinObs *Observation
	compare := func(i int, what string) error {
		oa, ob := Observe(a, u, oo), Observe(b, u, oo)
		lastTwinObs = ob
		if oa.Panic != "" || ob.Panic != "" {
			return fmt.Errorf("step %d (%s): observation panicked: %q %q", i, what, oa.Panic, ob.Panic)
		}
		if d := DiffObs(ob, oa); d != "" {
			if os.Getenv("VERIF_DEBUG") != "" {
				ta, _ := readTree(dirA)
				tb, _ := readTree(dirB)
				fmt.Printf("MERGED DIR:\n%sTWIN DIR:\n%s", dumpImage(&memFS{files: ta}), dumpImage(&memFS{files: tb}))
			}
			return fmt.Errorf("step %d (%s): database with Merge differs from its twin without Merge (twin VS merged): %s", i, what, d)
		}
		return nil
	}
	steps := append([]Step(nil), c.Steps...)
	steps = append(steps, Step{K: "reopen"})
	for i, s := range steps {
		switch s.K {
		case "tx":
			// Fill is resolved against A; B gets the same resolved ops
			rs := resolveFills(a, s)
			for j := range rs.Ops {
				rs.Ops[j].Fill = false
			}
			var fa, fb *FaultSpec
			if rs.Fault != nil {
				fa = &FaultSpec{Step: i, Kind: rs.Fault.Kind, At: rs.Fault.At, Partial: rs.Fault.Partial}
				fb = &FaultSpec{Step: i, Kind: rs.Fault.Kind, At: rs.Fault.At, Partial: rs.Fault.Partial}
			}
			recA.Fault, recB.Fault = fa, fb
			recA.Mark(fmt.Sprintf("begin %d", i))
			ta := a.RunTx(rs, true, nil)
			recA.Mark(fmt.Sprintf("end %d", i))
			recB.Mark(fmt.Sprintf("begin %d", i))
			tb := b.RunTx(rs, true, nil)
			recB.Mark(fmt.Sprintf("end %d", i))
			recA.Fault, recB.Fault = nil, nil
			if fa != nil && fa.Fired {
				faultsFired++
				if ta.Committed {
					return fmt.Errorf("step %d: Commit reported success although a write error was injected", i)
				}
			}
			if ta.Panic != "" || tb.Panic != "" || ta.BeginErr != nil || tb.BeginErr != nil {
				st.Eval(c.JSON(), false, "skipped-panic")
				return nil
			}
			for j := range ta.Res {
				if ta.Res[j].Panic != "" || tb.Res[j].Panic != "" {
					st.Eval(c.JSON(), false, "skipped-panic")
					return nil
				}
				if ta.Res[j].String() != tb.Res[j].String() {
					if merges > 0 && ta.Res[j].Err && !tb.Res[j].Err && emptiedStructure(lastTwinObs, rs.Ops[j]) && Known("c15-merge-forgets-emptied-set-keys") {
						// known finding: the emptied structure no longer exists after Merge and a reopen; the case ends
						// here without a verdict (the two databases may legitimately diverge from now on)
						st.Deviate("c15-merge-forgets-emptied-set-keys")
						st.Eval(c.JSON(), false, "stopped-at-call-on-emptied-structure-after-merge")
						return nil
					}
					return fmt.Errorf("step %d: call %s returned %s after Merge but %s in the twin", i, rs.Ops[j], ta.Res[j], tb.Res[j])
				}
			}
			if (ta.CommitErr == nil) != (tb.CommitErr == nil) {
				return fmt.Errorf("step %d: commit outcome differs: %v vs %v", i, ta.CommitErr, tb.CommitErr)
			}
			if merges > 0 && ta.Committed {
				writeAfter = true
			}
			lastWasMerge = false
		case "merge":
			before := datFiles(dirA)
			if os.Getenv("VERIF_DEBUG") != "" {
				tr, _ := readTree(dirA)
				fmt.Printf("BEFORE MERGE (step %d):\n%s", i, dumpImage(&memFS{files: tr}))
			}
			err := a.Merge()
			if os.Getenv("VERIF_DEBUG") != "" {
				tr, _ := readTree(dirA)
				fmt.Printf("AFTER MERGE (step %d) err=%v:\n%s", i, err, dumpImage(&memFS{files: tr}))
			}
			if a.Dead {
				st.Eval(c.JSON(), false, "skipped-panic")
				return nil
			}
			merges++
			if err == nil && before >= 2 {
				effective++
				if lastWasMerge {
					twice++
				}
			}
			lastWasMerge = true
		case "reopen":
			if err := a.Reopen(); err != nil {
				return fmt.Errorf("step %d: reopen of the merged database failed: %v", i, err)
			}
			if err := b.Reopen(); err != nil {
				return fmt.Errorf("step %d: reopen of the twin failed: %v", i, err)
			}
			if writeAfter {
				reopenAfterWrite = true
			}
			lastWasMerge = false
		case "clock":
			// both databases see the same virtual time; pairs may expire here, between two comparisons
			if virtualClock != 0 {
				st.Class("clock-steps", 1)
				if effective > 0 {
					st.Class("clock-steps-after-an-effective-merge", 1)
				}
			}
			setClock(s.T)
		}
		if err := compare(i, s.K); err != nil {
			return err
		}
	}
	var classes []string
	if effective > 0 {
		classes = append(classes, "effective-merge")
	}
	if twice > 0 {
		classes = append(classes, "merge-twice-in-a-row")
	}
	if reopenAfterWrite {
		classes = append(classes, "write-after-merge-then-reopen")
	}
	if faultsFired > 0 {
		classes = append(classes, "failed-commit-left-uncommitted-records-on-disk")
		if effective > 0 {
			classes = append(classes, "effective-merge-in-history-with-failed-commit")
		}
	}
	classes = append(classes, fmt.Sprintf("mode%d", c.Cfg.Mode))
	st.Eval(c.JSON(), effective > 0 && (hasDeadRecord(c) || faultsFired > 0), classes...)
	return nil
}

// hasDeadRecord: the history deletes, overwrites or expires something.
func hasDeadRecord(c Case) bool {
	seen := map[string]bool{}
	for _, s := range c.Steps {
		if s.End == "rollback" {
			return true
		}
		for _, op := range s.Ops {
			if !isWrite(op.K) {
				continue
			}
			k := structOf(op.K) + "\x00" + string(op.B) + "\x00" + string(op.Key)
			if op.K == "del" || op.K == "srem" || op.K == "zrem" || seen[k] || (op.K == "putts" && op.TTL > 0 && op.TS < 1500000000) {
				return true
			}
			seen[k] = true
		}
	}
	return false
}

func init() { register("C15", runC15) }

func TestC15(t *testing.T) {
	p := mixedParams{Modes: []int{0, 0, 1}, Segs: []int64{120, 200, 333}, Buckets: []string{"b", "c", "bb"},
		MinB: 1, MaxB: 2, MaxSteps: 18, MaxOps: 4, ReopenPct: 8, MergePct: 18, Structs: true, Fill: true, NoSPop: true, FaultPct: 12, ClockPct: 25}
	runProperty(t, "C15", genMixedCase(p), runC15)
}
