package props

import (
	"os"
	"testing"
)

// C16 — a crash during Merge loses or changes nothing.

// dropListZsetForMergeCrash applies the recorded finding c16-merge-crash-list-zset: crash images inside
// Merge are only judged for workloads without list and sorted-set calls.
func dropListZsetForMergeCrash(c Case, st *Stats) Case {
	if Known("c16-merge-crash-list-zset") {
		// known finding: construct around it by dropping list and sorted-set calls
		dropped := false
		var steps []Step
		for _, s := range c.Steps {
			if s.K == "tx" {
				ns := s
				ns.Ops = nil
				for _, op := range s.Ops {
					if k := structOf(op.K); k == "l" || (k == "z" && os.Getenv("VERIF_ZOK") == "") {
						dropped = true
						continue
					}
					ns.Ops = append(ns.Ops, op)
				}
				if len(ns.Ops) == 0 {
					continue
				}
				s = ns
			}
			steps = append(steps, s)
		}
		if dropped {
			st.Exclude("c16-merge-crash-list-zset")
			c.Steps = steps
		}
	}
	return c
}

func runC16(c Case, st *Stats) error {
	c = dropListZsetForMergeCrash(c, st)
	return runCrashCase(c, st, "C16", crashOpts{CheckState: true, OnlyMerge: true, Torn: true, Continue: true})
}

func init() { register("C16", runC16) }

func TestC16(t *testing.T) {
	p := wlParams{Modes: []int{0, 0, 1}, Segs: []int64{120, 200, 333}, MaxSteps: 12, ReopenPct: 5, MergePct: 22, FailPct: 6, FaultPct: 10, Structs: true}
	runProperty(t, "C16", genWorkload(p), runC16)
}
