package props

import (
	"fmt"
	"math"
	"strings"
	"testing"

	"github.com/xujiajun/nutsdb/ds/list"
	"pgregory.net/rapid"
)

// C05 — lists behave like Redis lists.

var listValues = []string{"", "a", "|", "a|b", "b", "1|a", "b|c"}

func genListOp(buckets, keys []string) func(t *rapid.T) Op {
	return func(t *rapid.T) Op {
		b := S(rapid.SampledFrom(buckets).Draw(t, "b"))
		k := S(rapid.SampledFrom(keys).Draw(t, "k"))
		val := func() S { return S(rapid.SampledFrom(listValues).Draw(t, "v")) }
		idx := func(l string) int { return rapid.IntRange(-7, 6).Draw(t, l) }
		switch rapid.IntRange(0, 19).Draw(t, "lkind") {
		case 0, 1, 2, 3:
			n := rapid.IntRange(1, 3).Draw(t, "nv")
			vs := make([]S, n)
			for i := range vs {
				vs[i] = val()
			}
			return Op{K: "rpush", B: b, Key: k, Vs: vs}
		case 4, 5, 6:
			n := rapid.IntRange(1, 3).Draw(t, "nv")
			vs := make([]S, n)
			for i := range vs {
				vs[i] = val()
			}
			return Op{K: "lpush", B: b, Key: k, Vs: vs}
		case 7:
			return Op{K: "lpop", B: b, Key: k}
		case 8:
			return Op{K: "rpop", B: b, Key: k}
		case 9:
			return Op{K: rapid.SampledFrom([]string{"lpeek", "rpeek", "lsize"}).Draw(t, "rk"), B: b, Key: k}
		case 10, 11, 12:
			return Op{K: "lrange", B: b, Key: k, I: idx("i"), J: idx("j")}
		case 13, 14, 15:
			return Op{K: "lrem", B: b, Key: k, I: idx("count"), V: val()}
		case 16, 17:
			return Op{K: "lset", B: b, Key: k, I: idx("i"), V: val()}
		default:
			return Op{K: "ltrim", B: b, Key: k, I: idx("i"), J: idx("j")}
		}
	}
}

func genC05() *rapid.Generator[Case] {
	return rapid.Custom(func(t *rapid.T) Case {
		buckets := []string{"lb"}
		if rapid.Bool().Draw(t, "twob") {
			buckets = append(buckets, "")
		}
		keys := genKeys(keyAlphabetNoSep, 1, 3, 2).Draw(t, "keys")
		return genStructHistory(60, 8, genListOp(buckets, keys)).Draw(t, "hist")
	})
}

func classifyC05(c Case, sr *structRun) (bool, []string) {
	nt := false
	var classes []string
	pushed := false
	for _, s := range c.Steps {
		for _, op := range s.Ops {
			if op.K == "rpush" || op.K == "lpush" {
				pushed = true
				for _, v := range op.Vs {
					if strings.Contains(string(v), "|") {
						classes = append(classes, "value-with-separator")
						nt = nt || pushed
					}
				}
			}
			if pushed && (op.K == "lrange" || op.K == "ltrim" || op.K == "lset" || op.K == "lrem") && (op.I < 0 || op.J < 0) {
				nt = true
				classes = append(classes, "negative-index")
			}
			if op.K == "lrem" && strings.Contains(string(op.V), "|") && pushed {
				nt = true
				classes = append(classes, "lrem-separator-value")
			}
		}
	}
	if sr.reopens > 0 {
		classes = append(classes, "reopen")
	}
	return nt, dedupe(classes)
}

func dedupe(in []string) []string {
	seen := map[string]bool{}
	var out []string
	for _, s := range in {
		if !seen[s] {
			seen[s] = true
			out = append(out, s)
		}
	}
	return out
}

func runC05(c Case, st *Stats) error { return runStructCase(c, st, classifyC05) }

func init() {
	register("C05", runC05)
	register("C05e2", runC05E2)
}

func TestC05(t *testing.T) { runProperty(t, "C05", genC05(), runC05) }

// ---- E2: exhaustive small-scope enumeration on ds/list ----

func execListDS(l *list.List, op Op) (res Res) {
	defer func() {
		if r := recover(); r != nil {
			res = Res{Panic: fmt.Sprintf("%s: %v", op.K, r)}
		}
	}()
	k := string(op.Key)
	switch op.K {
	case "rpush":
		_, err := l.RPush(k, bss(op.Vs)...)
		return errRes(err)
	case "lpush":
		_, err := l.LPush(k, bss(op.Vs)...)
		return errRes(err)
	case "lpop":
		return valRes(l.LPop(k))
	case "rpop":
		return valRes(l.RPop(k))
	case "lpeek":
		return valRes(l.LPeek(k))
	case "rpeek":
		v, _, err := l.RPeek(k)
		return valRes(v, err)
	case "lsize":
		return nRes(l.Size(k))
	case "lrange":
		x, err := l.LRange(k, op.I, op.J)
		return listRes(x, err, false)
	case "lrem":
		return nRes(l.LRem(k, op.I, bs(op.V)))
	case "lset":
		return errRes(l.LSet(k, op.I, bs(op.V)))
	case "ltrim":
		return errRes(l.Ltrim(k, op.I, op.J))
	}
	panic("execListDS: " + op.K)
}

// runC05E2: Steps[0] builds the state with one rpush, Steps[1] holds the op.
func runC05E2(c Case, st *Stats) error {
	l := list.New()
	m := NewModel()
	if len(c.Steps[0].Ops) > 0 {
		init := c.Steps[0].Ops[0]
		execListDS(l, init)
		for _, o := range m.Outcomes(init) {
			if o.Do != nil {
				o.Do(m)
			}
		}
	}
	op := c.Steps[1].Ops[0]
	r := execListDS(l, op)
	outs := m.Outcomes(op)
	var got []string
	for _, v := range l.Items[string(op.Key)] {
		got = append(got, string(v))
	}
	for _, o := range outs {
		if !o.matches(r) {
			continue
		}
		mm := m.Clone()
		if o.Do != nil {
			o.Do(mm)
		}
		want := mm.L[string(op.B)][string(op.Key)]
		if strings.Join(quoteAll(want), ",") == strings.Join(quoteAll(got), ",") {
			return nil
		}
	}
	var want []string
	for _, o := range outs {
		mm := m.Clone()
		if o.Do != nil {
			o.Do(mm)
		}
		want = append(want, fmt.Sprintf("%s -> %v", o.R, quoteAll(mm.L[string(op.B)][string(op.Key)])))
	}
	return fmt.Errorf("ds/list %s on %v returned %s leaving %v; model allows %v", op, quoteAll(m.L[string(op.B)][string(op.Key)]), r, quoteAll(got), want)
}

func quoteAll(in []string) []string {
	out := make([]string, len(in))
	for i, s := range in {
		out[i] = q(s)
	}
	return out
}

func TestC05Enum(t *testing.T) {
	st := NewStats("C05")
	defer st.Flush()
	vals := []string{"", "a", "|", "a|b"}
	maxLen := 4
	if envTier() == "thorough" {
		maxLen = 5
	}
	var states [][]string
	var rec func(cur []string)
	rec = func(cur []string) {
		states = append(states, append([]string(nil), cur...))
		if len(cur) == maxLen {
			return
		}
		for _, v := range vals {
			rec(append(cur, v))
		}
	}
	rec(nil)
	var ops []Op
	k := S("k")
	for _, v := range vals {
		ops = append(ops, Op{K: "rpush", B: "b", Key: k, Vs: []S{S(v)}}, Op{K: "lpush", B: "b", Key: k, Vs: []S{S(v)}})
	}
	ops = append(ops, Op{K: "lpush", B: "b", Key: k, Vs: []S{"a", "|"}}, Op{K: "rpush", B: "b", Key: k, Vs: []S{"a", "|"}})
	for _, n := range []string{"lpop", "rpop", "lpeek", "rpeek", "lsize"} {
		ops = append(ops, Op{K: n, B: "b", Key: k})
	}
	lo, hi := -maxLen-2, maxLen+1
	for i := lo; i <= hi; i++ {
		for j := lo; j <= hi; j++ {
			ops = append(ops, Op{K: "lrange", B: "b", Key: k, I: i, J: j}, Op{K: "ltrim", B: "b", Key: k, I: i, J: j})
		}
		for _, v := range vals {
			ops = append(ops, Op{K: "lrem", B: "b", Key: k, I: i, V: S(v)}, Op{K: "lset", B: "b", Key: k, I: i, V: S(v)})
		}
	}
	// beyond the exhaustive index range: extreme counts and indexes (the exported list type has no validation layer
	// in front of it, unlike Tx)
	for _, x := range []int{math.MinInt64, math.MinInt64 + 1, math.MaxInt64, math.MinInt32, math.MaxInt32} {
		ops = append(ops, Op{K: "lrange", B: "b", Key: k, I: x, J: -1}, Op{K: "lrange", B: "b", Key: k, I: 0, J: x},
			Op{K: "ltrim", B: "b", Key: k, I: x, J: -1}, Op{K: "ltrim", B: "b", Key: k, I: 0, J: x}, Op{K: "lset", B: "b", Key: k, I: x, V: "a"})
		for _, v := range vals {
			ops = append(ops, Op{K: "lrem", B: "b", Key: k, I: x, V: S(v)})
		}
	}
	st.Exhaustive = true
	st.Extra["e2_states"] = len(states)
	st.Extra["e2_ops_per_state"] = len(ops)
	for _, s := range states {
		var initOps []Op
		if len(s) > 0 {
			vs := make([]S, len(s))
			for i := range s {
				vs[i] = S(s[i])
			}
			initOps = []Op{{K: "rpush", B: "b", Key: k, Vs: vs}}
		}
		for _, op := range ops {
			c := Case{Prop: "C05e2", Steps: []Step{{K: "state", Ops: initOps}, {K: "op", Ops: []Op{op}}}}
			nontrivial := len(s) > 0 && (op.I < 0 || op.J < 0 || strings.Contains(string(op.V), "|") || op.I >= len(s) || op.J >= len(s))
			if err := runC05E2(c, st); err != nil {
				writeFail("C05", c.JSON(), err.Error())
				t.Fatalf("C05 (E2) violated: %v\ncase: %s", err, c.JSON())
			}
			st.Eval(c.JSON(), nontrivial, "e2")
		}
	}
}
