package props

import (
	"fmt"
	"math/rand"
	"os"
	"sort"
	"strings"
	"testing"

	"pgregory.net/rapid"
)

// C12 — failed, rolled-back and read-only transactions have no effect.
// The "bad" step of a history runs on the main database only; a twin runs the
// same history without it. Main and twin must be observationally equal after
// every step, in the process and after reopen. Injected sync faults leave the
// outcome in doubt: there the state must equal the twin without the step or a
// second twin that committed it.

var allWriteOps = func(b, k, k2 S) []Op {
	return []Op{
		{K: "put", B: b, Key: k, V: "ro"}, {K: "putts", B: b, Key: k, V: "ro", TTL: 0}, {K: "del", B: b, Key: k},
		{K: "rpush", B: b, Key: k2, Vs: []S{"ro"}}, {K: "lpush", B: b, Key: k2, Vs: []S{"ro"}}, {K: "lpop", B: b, Key: k2}, {K: "rpop", B: b, Key: k2},
		{K: "lrem", B: b, Key: k2, I: 1, V: "a"}, {K: "lset", B: b, Key: k2, I: 0, V: "ro"}, {K: "ltrim", B: b, Key: k2, I: 0, J: 0},
		{K: "sadd", B: b, Key: k2, Vs: []S{"ro"}}, {K: "srem", B: b, Key: k2, Vs: []S{"a"}}, {K: "spop", B: b, Key: k2},
		{K: "smove1", B: b, Key: k2, Key2: k2, V: "a"}, {K: "smove2", B: b, Key: k2, B2: b, Key2: k2, V: "a"},
		{K: "zadd", B: b, Key: "ro", F: 1, V: "ro"}, {K: "zrem", B: b, Key: "a"}, {K: "zremrangebyrank", B: b, I: 1, J: 1}, {K: "zpopmax", B: b}, {K: "zpopmin", B: b},
	}
}

func genC12() *rapid.Generator[Case] {
	return rapid.Custom(func(t *rapid.T) Case {
		p := mixedParams{Modes: []int{0, 0, 1, 2}, Segs: []int64{200, 333, 1024}, Buckets: []string{"b", "c"},
			MinB: 1, MaxB: 2, MaxSteps: 8, MaxOps: 4, ReopenPct: 8, MergePct: 8, Structs: true, Fill: false, NoSPop: true}
		c := genMixedCase(p).Draw(t, "hist")
		kind := rapid.SampledFrom([]string{"fnerr", "rollback", "oversize", "wfault", "wfault", "sfault", "readonly", "stale"}).Draw(t, "badkind")
		if kind == "sfault" {
			c.Cfg.Sync = true
		}
		// the bad step: a transaction that would change the observation
		structs := c.Cfg.Mode == 0
		var buckets []string
		for _, b := range bucketsOf(c) {
			buckets = append(buckets, b)
		}
		if len(buckets) == 0 {
			buckets = []string{"b"}
		}
		kvKeys := []string{"a", "ab", "\x00"}
		sKeys := []string{"a", "c"}
		// prefer the keys the history itself uses, so that the bad transaction pops, removes and overwrites what exists
		hu := UniverseOf(c)
		seenK := map[string]bool{}
		var histS, histKV []string
		for _, m := range []map[string][]string{hu.LK, hu.SK} {
			for b, ks := range m {
				if b == "never" {
					continue
				}
				for _, k := range ks {
					if !seenK["s"+k] && k != "" {
						seenK["s"+k] = true
						histS = append(histS, k)
					}
				}
			}
		}
		for b, ks := range hu.KVK {
			if b == "never" {
				continue
			}
			for _, k := range ks {
				if !seenK["k"+k] && k != "" {
					seenK["k"+k] = true
					histKV = append(histKV, k)
				}
			}
		}
		sort.Strings(histS)
		sort.Strings(histKV)
		if len(histS) > 0 && rapid.IntRange(0, 3).Draw(t, "histskeys") != 0 {
			sKeys = histS
		}
		if len(histKV) > 0 && rapid.IntRange(0, 3).Draw(t, "histkvkeys") != 0 {
			kvKeys = histKV
		}
		gop := genMixedOp(structs, buckets, kvKeys, sKeys, false, nil)
		bad := Step{K: "bad", End: kind, Managed: rapid.Bool().Draw(t, "bmanaged")}
		nops := rapid.IntRange(1, 4).Draw(t, "bnops")
		for len(bad.Ops) < nops {
			op := gop(t)
			// SPop may pop any member: it is fine in a transaction that must have no effect, but not where the
			// outcome is in doubt (sync fault) and a twin that committed the same calls is the reference
			if (op.K == "spop" && kind == "sfault") || !isWrite(op.K) {
				op = Op{K: "put", B: S(buckets[0]), Key: S(rapid.SampledFrom(kvKeys).Draw(t, "bk")), V: S(genValue().Draw(t, "bv"))}
			}
			bad.Ops = append(bad.Ops, op)
		}
		if structs && kind != "sfault" && rapid.IntRange(0, 3).Draw(t, "popexisting") == 2 {
			// a pop on a structure the history itself wrote (it has members to hand out and to lose): what a pop
			// returns inside a transaction that ends without effect must still be there afterwards
			type bk struct{ b, k string }
			var sets, lists []bk
			for b, ks := range hu.SK {
				for _, k := range ks {
					if b != "never" && k != "" {
						sets = append(sets, bk{b, k})
					}
				}
			}
			for b, ks := range hu.LK {
				for _, k := range ks {
					if b != "never" && k != "" {
						lists = append(lists, bk{b, k})
					}
				}
			}
			sort.Slice(sets, func(i, j int) bool { return sets[i].b+"\x00"+sets[i].k < sets[j].b+"\x00"+sets[j].k })
			sort.Slice(lists, func(i, j int) bool { return lists[i].b+"\x00"+lists[i].k < lists[j].b+"\x00"+lists[j].k })
			if len(sets) > 0 {
				x := rapid.SampledFrom(sets).Draw(t, "popset")
				bad.Ops = append(bad.Ops, Op{K: "spop", B: S(x.b), Key: S(x.k)})
			}
			if len(lists) > 0 {
				x := rapid.SampledFrom(lists).Draw(t, "poplist")
				bad.Ops = append(bad.Ops, Op{K: rapid.SampledFrom([]string{"lpop", "rpop"}).Draw(t, "popkind"), B: S(x.b), Key: S(x.k)})
			}
			zbs := append([]string(nil), hu.ZB...)
			sort.Strings(zbs)
			for _, b := range zbs {
				if b != "never" && rapid.Bool().Draw(t, "popz") {
					bad.Ops = append(bad.Ops, Op{K: rapid.SampledFrom([]string{"zpopmax", "zpopmin"}).Draw(t, "zpopkind"), B: S(b)})
				}
			}
		}
		switch kind {
		case "fnerr":
			bad.Managed = true
			bad.FailAt = rapid.IntRange(1, len(bad.Ops)).Draw(t, "failat")
		case "rollback":
			bad.Managed = false
		case "oversize":
			pos := rapid.IntRange(0, len(bad.Ops)).Draw(t, "bigpos")
			ops := append([]Op(nil), bad.Ops[:pos]...)
			ops = append(ops, Op{K: "putbig", B: S(buckets[0]), Key: "big", I: rapid.SampledFrom([]int{0, 1, 1, 2, 3}).Draw(t, "excess")})
			ops = append(ops, bad.Ops[pos:]...)
			bad.Ops = ops
		case "readonly":
			b := S(buckets[0])
			bad.Ops = append(bad.Ops, allWriteOps(b, "a", "a")...)
			if !structs {
				bad.Ops = bad.Ops[:nops+3]
			}
		case "stale":
			b := S(buckets[0])
			bad.After = allWriteOps(b, "a", "a")
			if !structs {
				bad.After = bad.After[:3]
			}
			// manual style: the handle from Begin; managed style: the handle db.Update passed to the function, used after
			// Update returned and again from inside a later managed transaction
			bad.Managed = rapid.Bool().Draw(t, "stalemanaged")
			bad.End = rapid.SampledFrom([]string{"stale-commit", "stale-rollback"}).Draw(t, "staleend")
			if bad.End == "stale-commit" {
				bad.Ops = nil // a committed empty transaction, then calls on it
			}
		}
		pos := rapid.IntRange(0, len(c.Steps)).Draw(t, "badpos")
		steps := append([]Step(nil), c.Steps[:pos]...)
		steps = append(steps, bad)
		if (kind == "wfault" || kind == "sfault") && rapid.Bool().Draw(t, "echo") {
			// what an application does after a failed commit: it writes again, here a prefix of the failed
			// transaction with records of exactly the same sizes but, where the universe has one, another key of the
			// same length and another value - so the new records end on record boundaries of the failed ones
			echo := Step{K: "tx", Managed: true}
			for _, op := range bad.Ops[:rapid.IntRange(1, len(bad.Ops)).Draw(t, "echon")] {
				if op.K != "put" && op.K != "putts" {
					// only the key/value writes are echoed: a structure call copied into the history could make a later
					// SPop of the history choose among several members (main and twin may legitimately pop different ones)
					continue
				}
				if op.K == "put" || op.K == "putts" {
					for _, k := range kvKeys {
						if len(k) == len(op.Key) && k != string(op.Key) {
							op.Key = S(k)
							break
						}
					}
					op.V = S(strings.Repeat("r", len(op.V)))
				}
				echo.Ops = append(echo.Ops, op)
			}
			if len(echo.Ops) > 0 {
				steps = append(steps, echo)
			}
		}
		if rapid.Bool().Draw(t, "reopenafter") {
			steps = append(steps, Step{K: "reopen"})
		}
		steps = append(steps, c.Steps[pos:]...)
		c.Steps = steps
		if rapid.IntRange(0, 2).Draw(t, "blind") == 1 {
			c.Extra = map[string]interface{}{"blind": true}
		}
		return c
	})
}

type c12run struct {
	main, twin *DBH
	rec        *Recorder
}

// runC12Once executes the case with an optional fault; it returns the number of
// write and sync events seen inside the bad step's commit (for enumeration).
func runC12Once(c Case, st *Stats, fault *FaultSpec) (nw, ns int, fired bool, err error) {
	rand.Seed(c.Seed)
	dirM, dirT, dirT1 := newDir("c12m"), newDir("c12t"), newDir("c12u")
	defer os.RemoveAll(dirM)
	defer os.RemoveAll(dirT)
	defer os.RemoveAll(dirT1)
	rec := StartRecorder(dirM)
	defer rec.Stop()
	rec.Fault = fault
	m, e := OpenDB(dirM, c.Cfg)
	if e != nil {
		return 0, 0, false, fmt.Errorf("open failed: %v", e)
	}
	defer func() { m.Close() }()
	tw, e := OpenDB(dirT, c.Cfg)
	if e != nil {
		return 0, 0, false, fmt.Errorf("open failed: %v", e)
	}
	defer func() { tw.Close() }()
	var t1 *DBH // twin that commits the bad step (sync faults only)
	needT1 := fault != nil && fault.Kind == "sync"
	if needT1 {
		t1, e = OpenDB(dirT1, c.Cfg)
		if e != nil {
			return 0, 0, false, fmt.Errorf("open failed: %v", e)
		}
		defer func() { t1.Close() }()
	}
	u := UniverseOf(c)
	oo := obsForCase(c, nil)
	inDoubt := false
	var lastTwinObs *Observation
	hasMergeStep := false
	for _, s := range c.Steps {
		if s.K == "merge" {
			hasMergeStep = true
		}
	}
	var ambiguous, diverged bool
	compare := func(i int, what string) error {
		om, ot := Observe(m, u, oo), Observe(tw, u, oo)
		lastTwinObs = ot
		if om.Panic != "" || ot.Panic != "" {
			return fmt.Errorf("step %d (%s): observation panicked: %q %q", i, what, om.Panic, ot.Panic)
		}
		d := DiffObs(ot, om)
		if d == "" {
			return nil
		}
		if inDoubt && t1 != nil {
			o1 := Observe(t1, u, oo)
			if DiffObs(o1, om) == "" {
				return nil
			}
			if ambiguous && diverged {
				// The transaction in doubt was invisible in the process and is visible after the reopen (allowed), and a
				// later transaction touched the same keys: what that one did was decided without seeing it (a ZRem of a
				// member only the doubtful transaction had added was a no-op and logged nothing), so the state is that of
				// neither twin although the doubtful transaction is visible entirely. No verdict.
				st.Class("in-doubt-case-ended-without-verdict(later-transaction-touched-the-same-keys)", 1)
				return errSkip
			}
			return fmt.Errorf("step %d (%s): after a sync error the state is neither without the transaction nor with all of it: vs without: %s || vs with: %s", i, what, d, DiffObs(o1, om))
		}
		return fmt.Errorf("step %d (%s): a transaction that must have no effect changed the database (twin without it VS main): %s", i, what, d)
	}
	blind := c.Extra["blind"] != nil && !hasMergeStep
	// ambiguous: a transaction after the bad one writes to a key, list, set or sorted-set member the bad one writes to
	ambiguous = false
	{
		var badToks []string
		seenBad := false
		for _, s := range c.Steps {
			if s.K == "bad" {
				seenBad = true
				for _, op := range s.Ops {
					badToks = append(badToks, touchTokens(op)...)
				}
				continue
			}
			if !seenBad || s.K != "tx" {
				continue
			}
			for _, op := range s.Ops {
				for _, a := range touchTokens(op) {
					for _, b := range badToks {
						if tokensMeet(a, b) {
							ambiguous = true
						}
					}
				}
			}
		}
	}
	// every run ends with a reopen and one more comparison ("both in the running process and after reopen")
	for i, s := range append(append([]Step(nil), c.Steps...), Step{K: "reopen"}) {
		switch s.K {
		case "tx":
			tm := m.RunTx(s, true, nil)
			tt := tw.RunTx(s, true, nil)
			if t1 != nil {
				// a later transaction that behaves differently with and without the doubtful transaction (a removal
				// that finds nothing, a pop that returns another element) makes the case ambiguous, see compare
				t1r := t1.RunTx(s, true, nil)
				if inDoubt {
					if t1r.Committed != tt.Committed || len(t1r.Res) != len(tt.Res) {
						diverged = true
					}
					for j := range t1r.Res {
						if j < len(tt.Res) && t1r.Res[j].String() != tt.Res[j].String() {
							diverged = true
						}
					}
				}
			}
			if tm.Panic != "" || tt.Panic != "" || tm.BeginErr != nil {
				return nw, ns, fired, errSkip
			}
			for j := range tm.Res {
				if tm.Res[j].Panic != "" {
					return nw, ns, fired, errSkip
				}
				if !inDoubt && j < len(tt.Res) && tm.Res[j].String() != tt.Res[j].String() && hasMergeStep && tm.Res[j].Err != tt.Res[j].Err &&
					emptiedStructure(lastTwinObs, s.Ops[j]) && Known("c15-merge-forgets-emptied-set-keys") {
					// known finding: main and twin may have merged at different moments; an emptied structure exists in one only
					return nw, ns, fired, errSkip
				}
				if !inDoubt && j < len(tt.Res) && tm.Res[j].String() != tt.Res[j].String() {
					return nw, ns, fired, fmt.Errorf("step %d: call %s returned %s on main but %s on the twin", i, s.Ops[j], tm.Res[j], tt.Res[j])
				}
			}
		case "merge":
			// Merge on every database (it fails cleanly with fewer than 2 segments or in sparse mode): whatever the
			// bad transaction left in the segments must not be brought to life by it
			_ = m.Merge()
			_ = tw.Merge()
			if t1 != nil {
				_ = t1.Merge()
			}
			if m.Dead || tw.Dead || (t1 != nil && t1.Dead) {
				return nw, ns, fired, errSkip
			}
		case "reopen":
			if err := m.Reopen(); err != nil {
				return nw, ns, fired, fmt.Errorf("step %d: reopen failed: %v", i, err)
			}
			if err := tw.Reopen(); err != nil {
				return nw, ns, fired, fmt.Errorf("step %d: reopen of the twin failed: %v", i, err)
			}
			if t1 != nil {
				if err := t1.Reopen(); err != nil {
					return nw, ns, fired, fmt.Errorf("step %d: reopen of the twin failed: %v", i, err)
				}
			}
		case "bad":
			bs := s
			writable := s.End != "readonly"
			switch s.End {
			case "readonly", "oversize", "wfault", "sfault":
				bs.End = "commit"
			case "stale-commit":
				bs.End = "commit"
			case "stale-rollback":
				bs.End = "rollback"
			}
			if t1 != nil {
				t1.RunTx(bs, true, nil)
			}
			before := len(rec.Evs)
			rec.Mark(fmt.Sprintf("begin %d", i))
			tr := m.RunTx(bs, writable, nil)
			rec.Mark(fmt.Sprintf("end %d", i))
			for _, e := range rec.Evs[before:] {
				if e.Kind == "write" {
					nw++
				}
				if e.Kind == "sync" {
					ns++
				}
			}
			if tr.Panic != "" {
				return nw, ns, fired, fmt.Errorf("step %d: the transaction panicked outside a call: %s", i, tr.Panic)
			}
			if fault != nil {
				fired = fault.Fired
				if fault.Fired && tr.Committed {
					return nw, ns, fired, fmt.Errorf("step %d: Commit reported success although an I/O error was injected (%s #%d)", i, fault.Kind, fault.At)
				}
				if fault.Fired && fault.Kind == "sync" {
					inDoubt = true
				}
				if !fault.Fired {
					// the commit never reached that event (e.g. nothing to write): the step committed normally
					return nw, ns, false, errSkip
				}
			}
			switch s.End {
			case "readonly":
				for j, r := range tr.Res {
					if r.Panic != "" {
						return nw, ns, fired, fmt.Errorf("step %d: %s panicked in a read-only transaction: %s", i, bs.Ops[j].K, r.Panic)
					}
					if isWrite(bs.Ops[j].K) && !r.Err {
						return nw, ns, fired, fmt.Errorf("step %d: mutating call %s succeeded (%s) in a read-only transaction", i, bs.Ops[j], r)
					}
				}
			case "oversize":
				if tr.Committed {
					return nw, ns, fired, fmt.Errorf("step %d: a transaction with an entry larger than the segment committed", i)
				}
			case "stale-commit", "stale-rollback":
				for j, r := range tr.AfterRes {
					if r.Panic != "" {
						return nw, ns, fired, fmt.Errorf("step %d: %s on a finished transaction panicked: %s", i, bs.After[j%len(bs.After)].K, r.Panic)
					}
					if !r.Err {
						return nw, ns, fired, fmt.Errorf("step %d: %s on a finished transaction did not return an error (%s)", i, bs.After[j%len(bs.After)], r)
					}
				}
			case "fnerr", "rollback":
				if tr.Committed {
					return nw, ns, fired, fmt.Errorf("step %d: a rolled-back transaction reports committed", i)
				}
			}
			if s.End == "stale-commit" {
				// the (empty) transaction itself committed on main only: no effect by construction
			}
		}
		if blind && i < len(c.Steps) && s.K != "reopen" {
			// blind case: nothing is read between the steps (an observation is a series of read-only transactions, and
			// state that a failed transaction leaves for "the next transaction" would be consumed by them)
			continue
		}
		if err := compare(i, s.K+"/"+s.End); err != nil {
			return nw, ns, fired, err
		}
	}
	return nw, ns, fired, nil
}

func runC12(c Case, st *Stats) error {
	hasMerge := false
	for _, s := range c.Steps {
		if s.K == "merge" {
			hasMerge = true
		}
	}
	if hasMerge && Known("c15-merge-list-duplication") {
		// known finding: Merge duplicates list elements; main and twin may merge at different moments, so histories
		// with Merge steps run without their list calls
		dropped := false
		var steps []Step
		for _, s := range c.Steps {
			if s.K == "tx" || s.K == "bad" {
				ns := s
				ns.Ops = nil
				for _, op := range s.Ops {
					if structOf(op.K) == "l" {
						dropped = true
						continue
					}
					ns.Ops = append(ns.Ops, op)
				}
				var after []Op
				for _, op := range s.After {
					if structOf(op.K) != "l" {
						after = append(after, op)
					}
				}
				ns.After = after
				if len(ns.Ops) == 0 && s.K == "tx" {
					continue
				}
				s = ns
			}
			steps = append(steps, s)
		}
		if dropped {
			st.Exclude("c15-merge-list-duplication")
			c.Steps = steps
		}
	}
	kind := ""
	wouldChange := false
	for _, s := range c.Steps {
		if s.K == "bad" {
			kind = s.End
			wouldChange = len(s.Ops) > 0
		}
	}
	if c.Cfg.Mode == 2 && (kind == "wfault" || kind == "sfault") && Known("sparse-index-files-not-crash-consistent") {
		st.Exclude("sparse-index-files-not-crash-consistent")
		c.Cfg.Mode = 1
	}
	classes := []string{"kind-" + kind, fmt.Sprintf("mode%d", c.Cfg.Mode)}
	if kind != "wfault" && kind != "sfault" {
		_, _, _, err := runC12Once(c, st, nil)
		if err == errSkip {
			st.Eval(c.JSON(), false, "skipped-panic")
			return nil
		}
		if err != nil {
			return err
		}
		st.Eval(c.JSON(), wouldChange, classes...)
		return nil
	}
	// fault plans: count the events of the bad step's commit, then fail each in turn
	badIdx := -1
	for i, s := range c.Steps {
		if s.K == "bad" {
			badIdx = i
		}
	}
	nw, ns, _, err := runC12Once(c, st, nil)
	if err == errSkip {
		st.Eval(c.JSON(), false, "skipped")
		return nil
	}
	if err != nil && kind != "wfault" && kind != "sfault" {
		return err
	}
	n := nw
	fk := "write"
	if kind == "sfault" {
		n, fk = ns, "sync"
	}
	runs := 0
	for k := 0; k < n; k++ {
		partials := []int{0}
		if fk == "write" {
			partials = []int{0, 7, 43, 1 << 20} // 1<<20: everything but the last byte
		}
		for _, p := range partials {
			f := &FaultSpec{Step: badIdx, Kind: fk, At: k, Partial: p}
			_, _, fired, err := runC12Once(c, st, f)
			if err == errSkip {
				continue
			}
			if err != nil {
				return fmt.Errorf("[injected %s error at event #%d of the commit, %d bytes written] %v", fk, k, p, err)
			}
			if fired {
				runs++
			}
		}
	}
	st.Sub(runs)
	if runs > 0 {
		classes = append(classes, "fault-plans-executed")
	}
	st.Eval(c.JSON(), wouldChange && runs > 0, classes...)
	return nil
}

func init() { register("C12", runC12) }

func TestC12(t *testing.T) { runProperty(t, "C12", genC12(), runC12) }

// touchTokens names what a write call touches: "kv|bucket|key", "l|bucket|key", "s|bucket|key", "z|bucket|member",
// or "z|bucket|*" for calls that address members by rank or position.
func touchTokens(op Op) []string {
	if !isWrite(op.K) {
		return nil
	}
	b, k := string(op.B), string(op.Key)
	switch structOf(op.K) {
	case "l":
		return []string{"l|" + b + "|" + k}
	case "s":
		t := []string{"s|" + b + "|" + k}
		if strings.HasPrefix(op.K, "smove") {
			b2 := b
			if strings.HasSuffix(op.K, "2") {
				b2 = string(op.B2)
			}
			t = append(t, "s|"+b2+"|"+string(op.Key2))
		}
		return t
	case "z":
		if op.K == "zadd" || op.K == "zrem" {
			return []string{"z|" + b + "|" + k}
		}
		return []string{"z|" + b + "|*"}
	}
	return []string{"kv|" + b + "|" + k}
}

func tokensMeet(a, b string) bool {
	if a == b {
		return true
	}
	for _, p := range [][2]string{{a, b}, {b, a}} {
		if strings.HasSuffix(p[0], "|*") && strings.HasPrefix(p[1], strings.TrimSuffix(p[0], "*")) {
			return true
		}
	}
	return false
}
