package props

import (
	"fmt"
	"math/rand"
	"os"
	"strings"
	"testing"
)

// C19 — storage options do not change results (differential across configurations).

// execHistory runs the steps under cfg and returns a transcript: per-call
// results, commit status and the full observation after every step.
func execHistory(cfg Config, steps []Step, u *Universe, oo ObsOpts, seed int64) (lines []string, fatal error) {
	rand.Seed(seed)
	dir := newDir("c19")
	defer os.RemoveAll(dir)
	h, err := OpenDB(dir, cfg)
	if err != nil {
		return nil, fmt.Errorf("open of an empty directory failed: %v", err)
	}
	defer func() { h.Close() }()
	for i, s := range steps {
		switch s.K {
		case "tx":
			s = resolveFills(h, s)
			tr := h.RunTx(s, true, nil)
			if tr.Panic != "" || tr.BeginErr != nil {
				return lines, fmt.Errorf("step %d: transaction panicked: %s %v", i, tr.Panic, tr.BeginErr)
			}
			for j, r := range tr.Res {
				lines = append(lines, fmt.Sprintf("step %d op %d %s => %s", i, j, s.Ops[j].K, r.String()))
			}
			lines = append(lines, fmt.Sprintf("step %d commit => %v", i, tr.CommitErr == nil))
		case "reopen":
			if err := h.Reopen(); err != nil {
				return lines, fmt.Errorf("step %d: reopen failed: %v", i, err)
			}
		case "clock":
			setClock(s.T)
		default:
			continue
		}
		o := Observe(h, u, oo)
		if o.Panic != "" {
			return lines, fmt.Errorf("step %d: observation panicked: %s", i, o.Panic)
		}
		for _, l := range o.Lines {
			lines = append(lines, fmt.Sprintf("after step %d: %s", i, l))
		}
	}
	return lines, nil
}

func kvOnly(steps []Step) []Step {
	var out []Step
	for _, s := range steps {
		if s.K != "tx" {
			out = append(out, s)
			continue
		}
		ns := s
		ns.Ops = nil
		for _, op := range s.Ops {
			if structOf(op.K) == "kv" {
				ns.Ops = append(ns.Ops, op)
			}
		}
		if len(ns.Ops) > 0 {
			out = append(out, ns)
		}
	}
	return out
}

func firstDiff(a, b []string) string {
	n := len(a)
	if len(b) < n {
		n = len(b)
	}
	for i := 0; i < n; i++ {
		if a[i] != b[i] {
			return fmt.Sprintf("%q VS %q", a[i], b[i])
		}
	}
	if len(a) != len(b) {
		return fmt.Sprintf("transcript lengths %d vs %d", len(a), len(b))
	}
	return ""
}

func runC19(c Case, st *Stats) error {
	u := UniverseOf(c)
	seg := c.Cfg.Seg
	// group A: full history, KeyVal mode, every RWMode x loading mode x sync
	var ref []string
	var refCfg Config
	for rw := 0; rw < 2; rw++ {
		for load := 0; load < 2; load++ {
			for sync := 0; sync < 2; sync++ {
				cfg := Config{Mode: 0, RW: rw, Load: load, Sync: sync == 1, Seg: seg}
				lines, err := execHistory(cfg, c.Steps, u, fullObs, c.Seed)
				if err != nil {
					return fmt.Errorf("[%s] %v", cfg, err)
				}
				if ref == nil {
					ref, refCfg = lines, cfg
					continue
				}
				if d := firstDiff(ref, lines); d != "" {
					return fmt.Errorf("results differ between [%s] and [%s]: %s", refCfg, cfg, d)
				}
			}
		}
	}
	// group B: the KV part under KeyVal (reference), KeyOnly and sparse
	kv := kvOnly(c.Steps)
	kvObs := ObsOpts{KV: true, KVScans: true}
	kvCase := c
	kvCase.Steps = kv
	ukv := UniverseOf(kvCase)
	ref, err := execHistory(Config{Mode: 0, Seg: seg}, kv, ukv, kvObs, c.Seed)
	if err != nil {
		return fmt.Errorf("[kv reference] %v", err)
	}
	refCfg = Config{Mode: 0, Seg: seg}
	modes := []int{1, 2}
	if Known("c04-sparse-bucket-key-concatenation") && hasPrefixPair(ukv.KVB) {
		modes = []int{1}
		st.Exclude("c04-sparse-bucket-key-concatenation")
	}
	for _, mode := range modes {
		for rw := 0; rw < 2; rw++ {
			for load := 0; load < 2; load++ {
				for sync := 0; sync < 2; sync++ {
					cfg := Config{Mode: mode, RW: rw, Load: load, Sync: sync == 1, Seg: seg}
					lines, err := execHistory(cfg, kv, ukv, kvObs, c.Seed)
					if err != nil {
						return fmt.Errorf("[%s] %v", cfg, err)
					}
					if d := firstDiff(ref, lines); d != "" {
						return fmt.Errorf("KV results differ between [%s] and [%s]: %s", refCfg, cfg, d)
					}
				}
			}
		}
	}
	reopens, fills := 0, 0
	for _, s := range c.Steps {
		if s.K == "reopen" {
			reopens++
		}
		for _, op := range s.Ops {
			if op.Fill {
				fills++
			}
		}
	}
	// rotation happened iff the transcript of a run wrote more than one segment; approximate by size
	bytes := 0
	for _, s := range c.Steps {
		for _, op := range s.Ops {
			if isWrite(op.K) {
				bytes += 42 + len(op.B) + len(op.Key) + len(op.V)
			}
		}
	}
	rot := int64(bytes) > seg
	var classes []string
	if rot {
		classes = append(classes, "rotation")
	}
	if reopens > 0 {
		classes = append(classes, "reopen")
	}
	if fills > 0 {
		classes = append(classes, "exact-fill")
	}
	classes = append(classes, "configs-per-case-"+fmt.Sprint(8+1+8*len(modes)))
	st.Sub(8 + 1 + 8*len(modes))
	st.Eval(c.JSON(), rot && reopens > 0, classes...)
	_ = strings.Join
	return nil
}

func init() { register("C19", runC19) }

func TestC19(t *testing.T) {
	p := mixedParams{Modes: []int{0}, Segs: []int64{120, 200, 333, 1024}, Buckets: []string{"b", "bb", "c"},
		MinB: 1, MaxB: 2, MaxSteps: 14, MaxOps: 4, ReopenPct: 15, Structs: true, ReadsInTx: true, Fill: true, NoSPop: true, LongBigSeg: true, ClockPct: 20}
	runProperty(t, "C19", genMixedCase(p), runC19)
}
