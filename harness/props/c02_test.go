package props

import (
	"testing"

	"pgregory.net/rapid"
)

// C02 — KV reads match an ordered map in sparse B+ tree index mode.
// Single-bucket histories (bucket+key concatenations unambiguous; the
// ambiguous case belongs to C04), small segments, frequent reopen.

func genC02() *rapid.Generator[Case] {
	return rapid.Custom(func(t *rapid.T) Case {
		c := Case{Cfg: genConfig([]int{2}, []int64{120, 200, 333, 1024}).Draw(t, "cfg")}
		bucket := rapid.SampledFrom([]string{"b", "bk", "c", "b.k", "c.meta"}).Draw(t, "bucket")
		buckets := []string{bucket}
		shape := genKeyShape(t, keyAlphabet, 2, 7, 3, 4, false)
		keys := shape.Keys
		maxSteps := 25
		if shape.Kind == "bulk" {
			maxSteps = 10
		}
		if c.Cfg.Seg >= 1024 {
			// a sealed segment then holds more than 8 transactions: its on-disk transaction-id tree has inner nodes
			maxSteps = 60
		}
		if rapid.IntRange(0, 11).Draw(t, "treeshape") == 5 {
			// tree-shape case (see genTreeShapeSteps): 20-70 keys inserted in a structured order into the active
			// segment's tree (one large segment), then a short ordinary history
			keys = genKeys(keyAlphabet, 20, 70, 3).Draw(t, "tskeys")
			c.Cfg.Seg = 8192
			c.Steps = append(c.Steps, genTreeShapeSteps(t, bucket, keys)...)
			maxSteps = 6
			shape.Kind = "bulk"
			c.Extra = map[string]interface{}{"treeshape": true}
		}
		n := rapid.IntRange(1, maxSteps).Draw(t, "nsteps")
		var clk *clockGen
		if rapid.IntRange(0, 9).Draw(t, "clocked") < 3 {
			// virtual clock: records expire while the case runs, reads happen at, just before and just after expiry instants
			clk = &clockGen{Now: clockBase + int64(rapid.IntRange(0, 1000).Draw(t, "clock0"))}
			c.Steps = append(c.Steps, Step{K: "clock", T: clk.Now})
		}
		for i := 0; i < n; i++ {
			if clk != nil && rapid.IntRange(0, 7).Draw(t, "isclock") == 3 {
				c.Steps = append(c.Steps, clk.step(t))
				continue
			}
			if rapid.IntRange(0, 99).Draw(t, "isreopen") < 20 {
				c.Steps = append(c.Steps, Step{K: "reopen"})
				continue
			}
			nops := rapid.IntRange(1, shape.MaxOps).Draw(t, "nops")
			st := Step{K: "tx", Managed: rapid.Bool().Draw(t, "managed")}
			for j := 0; j < nops; j++ {
				st.Ops = append(st.Ops, genKVWriteClocked(buckets, keys, true, clk).Draw(t, "op"))
			}
			c.Steps = append(c.Steps, st)
		}
		bounds := boundsOf(keys)
		nr := rapid.IntRange(2, 5).Draw(t, "nreads")
		if shape.Kind != "small" {
			nr += 8
		}
		var reads []Op
		for i := 0; i < nr; i++ {
			s := rapid.SampledFrom(bounds).Draw(t, "s")
			e := rapid.SampledFrom(bounds).Draw(t, "e")
			if s > e {
				s, e = e, s
			}
			reads = append(reads, Op{K: "rangescan", B: S(bucket), Key: S(s), Key2: S(e)})
		}
		c.Steps = append(c.Steps, Step{K: "reads", Ops: reads})
		return c
	})
}

func runC02(c Case, st *Stats) error { return runKVModelCase(c, st, false) }

func init() { register("C02", runC02) }

func TestC02(t *testing.T) { runProperty(t, "C02", genC02(), runC02) }
