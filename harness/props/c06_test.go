package props

import (
	"fmt"
	"sort"
	"strings"
	"testing"

	"github.com/xujiajun/nutsdb/ds/set"
	"pgregory.net/rapid"
)

// C06 — sets behave like mathematical sets.

var setMembers = []string{"", "a", "b", "c", "|"}

func genSetOp(buckets, keys []string) func(t *rapid.T) Op {
	return func(t *rapid.T) Op {
		b := S(rapid.SampledFrom(buckets).Draw(t, "b"))
		b2 := S(rapid.SampledFrom(buckets).Draw(t, "b2"))
		k := S(rapid.SampledFrom(keys).Draw(t, "k"))
		k2 := S(rapid.SampledFrom(keys).Draw(t, "k2"))
		mem := func() S { return S(rapid.SampledFrom(setMembers).Draw(t, "m")) }
		mems := func() []S {
			n := rapid.IntRange(1, 3).Draw(t, "nm")
			out := make([]S, n)
			for i := range out {
				out[i] = mem()
			}
			return out
		}
		switch rapid.IntRange(0, 19).Draw(t, "skind") {
		case 0, 1, 2, 3, 4:
			return Op{K: "sadd", B: b, Key: k, Vs: mems()}
		case 5, 6, 7:
			return Op{K: "srem", B: b, Key: k, Vs: mems()}
		case 8, 9:
			return Op{K: "spop", B: b, Key: k}
		case 10, 11:
			return Op{K: "smove1", B: b, Key: k, Key2: k2, V: mem()}
		case 12, 13:
			return Op{K: "smove2", B: b, Key: k, B2: b2, Key2: k2, V: mem()}
		case 14:
			return Op{K: "sismember", B: b, Key: k, V: mem()}
		case 15:
			return Op{K: "saremembers", B: b, Key: k, Vs: mems()}
		case 16:
			return Op{K: rapid.SampledFrom([]string{"smembers", "scard", "shaskey"}).Draw(t, "rk"), B: b, Key: k}
		case 17:
			return Op{K: rapid.SampledFrom([]string{"sdiff1", "sunion1"}).Draw(t, "rk"), B: b, Key: k, Key2: k2}
		default:
			return Op{K: rapid.SampledFrom([]string{"sdiff2", "sunion2"}).Draw(t, "rk"), B: b, Key: k, B2: b2, Key2: k2}
		}
	}
}

func genC06() *rapid.Generator[Case] {
	return rapid.Custom(func(t *rapid.T) Case {
		buckets := []string{"sb"}
		if rapid.Bool().Draw(t, "twob") {
			buckets = append(buckets, "s2")
		}
		keys := genKeys(keyAlphabet, 1, 3, 2).Draw(t, "keys")
		return genStructHistory(50, 12, genSetOp(buckets, keys)).Draw(t, "hist")
	})
}

func classifyC06(c Case, sr *structRun) (bool, []string) {
	var classes []string
	nt := false
	sawMoveOrPop := false
	for _, s := range c.Steps {
		if s.K == "reopen" && sawMoveOrPop {
			nt = true
			classes = append(classes, "reopen-after-smove-or-spop")
		}
		for _, op := range s.Ops {
			if strings.HasPrefix(op.K, "smove") || op.K == "spop" {
				sawMoveOrPop = true
			}
			if op.K == "sadd" || op.K == "srem" {
				seen := map[S]bool{}
				for _, v := range op.Vs {
					if v == "" {
						nt = true
						classes = append(classes, "empty-member")
					}
					if seen[v] {
						nt = true
						classes = append(classes, "repeated-member")
					}
					seen[v] = true
				}
			}
		}
	}
	if sr.sawSMoveAbsent {
		classes = append(classes, "smove-absent-item-added-to-destination(tolerated)")
	}
	return nt, dedupe(classes)
}

func runC06(c Case, st *Stats) error { return runStructCase(c, st, classifyC06) }

func init() {
	register("C06", runC06)
	register("C06e2", runC06E2)
}

func TestC06(t *testing.T) { runProperty(t, "C06", genC06(), runC06) }

// ---- E2 on ds/set ----

func execSetDS(s *set.Set, op Op) (res Res) {
	defer func() {
		if r := recover(); r != nil {
			res = Res{Panic: fmt.Sprintf("%s: %v", op.K, r)}
		}
	}()
	k, k2 := string(op.Key), string(op.Key2)
	switch op.K {
	case "sadd":
		return errRes(s.SAdd(k, bss(op.Vs)...))
	case "srem":
		return errRes(s.SRem(k, bss(op.Vs)...))
	case "spop":
		v := s.SPop(k)
		return valRes(v, nil)
	case "scard":
		return rN(s.SCard(k))
	case "shaskey":
		return rB(s.SHasKey(k))
	case "sismember":
		return rB(s.SIsMember(k, bs(op.V)))
	case "saremembers":
		return bRes(s.SAreMembers(k, bss(op.Vs)...))
	case "smembers":
		l, err := s.SMembers(k)
		return listRes(l, err, true)
	case "sdiff1":
		l, err := s.SDiff(k, k2)
		return listRes(l, err, true)
	case "sunion1":
		l, err := s.SUnion(k, k2)
		return listRes(l, err, true)
	case "sinter":
		l, err := s.SInter(k, k2)
		return listRes(l, err, true)
	case "smove1":
		return bRes(s.SMove(k, k2, bs(op.V)))
	}
	panic("execSetDS: " + op.K)
}

func setState(m map[string]map[string]struct{}) string {
	var ks []string
	for k := range m {
		var ms []string
		for x := range m[k] {
			ms = append(ms, q(x))
		}
		sort.Strings(ms)
		if len(ms) > 0 { // empty and absent sets are the same logical state
			ks = append(ks, q(k)+"={"+strings.Join(ms, ",")+"}")
		}
	}
	sort.Strings(ks)
	return strings.Join(ks, " ")
}

func modelSetState(m *Model, b string) string {
	x := map[string]map[string]struct{}{}
	for k, s := range m.Set[b] {
		x[k] = map[string]struct{}{}
		for i := range s {
			x[k][i] = struct{}{}
		}
	}
	return setState(x)
}

// sinterOutcomes: SInter only exists on the ds type.
func sinterOutcomes(m *Model, op Op) []Outcome {
	b := string(op.B)
	s1, ok1 := m.Set[b][string(op.Key)]
	s2, ok2 := m.Set[b][string(op.Key2)]
	res := map[string]bool{}
	for x := range s1 {
		if s2[x] {
			res[x] = true
		}
	}
	items := setStrs(res)
	out := []Outcome{{R: rItems(items)}}
	if !ok1 || !ok2 || len(items) == 0 {
		out = append(out, Outcome{R: rErr()})
	}
	return out
}

func runC06E2(c Case, st *Stats) error {
	s := set.New()
	m := NewModel()
	m.DS = true
	for _, init := range c.Steps[0].Ops {
		execSetDS(s, init)
		for _, o := range m.Outcomes(init) {
			if o.Do != nil {
				o.Do(m)
			}
		}
	}
	op := c.Steps[1].Ops[0]
	before := modelSetState(m, string(op.B))
	r := execSetDS(s, op)
	var outs []Outcome
	if op.K == "sinter" {
		outs = sinterOutcomes(m, op)
	} else {
		outs = m.Outcomes(op)
	}
	got := setState(s.M)
	var want []string
	for _, o := range outs {
		mm := m.Clone()
		if o.Do != nil {
			o.Do(mm)
		}
		w := modelSetState(mm, string(op.B))
		want = append(want, fmt.Sprintf("%s -> %s", o.R, w))
		if o.matches(r) && w == got {
			return nil
		}
	}
	return fmt.Errorf("ds/set %s on [%s] returned %s leaving [%s]; model allows %v", op, before, r, got, want)
}

func TestC06Enum(t *testing.T) {
	st := NewStats("C06")
	defer st.Flush()
	st.Exhaustive = true
	mems := []string{"", "a", "b"}
	keys := []string{"k", "j"}
	// states: each key absent or any subset of mems
	type kstate struct {
		present bool
		mask    int
	}
	var kstates []kstate
	kstates = append(kstates, kstate{false, 0})
	for mask := 0; mask < 1<<len(mems); mask++ {
		kstates = append(kstates, kstate{true, mask})
	}
	var ops []Op
	for _, k := range keys {
		for _, v := range mems {
			ops = append(ops, Op{K: "sadd", B: "b", Key: S(k), Vs: []S{S(v)}}, Op{K: "srem", B: "b", Key: S(k), Vs: []S{S(v)}},
				Op{K: "sismember", B: "b", Key: S(k), V: S(v)})
			for _, v2 := range mems {
				ops = append(ops, Op{K: "saremembers", B: "b", Key: S(k), Vs: []S{S(v), S(v2)}})
				ops = append(ops, Op{K: "srem", B: "b", Key: S(k), Vs: []S{S(v), S(v2)}})
			}
			for _, k2 := range keys {
				ops = append(ops, Op{K: "smove1", B: "b", Key: S(k), Key2: S(k2), V: S(v)})
			}
		}
		for _, n := range []string{"spop", "scard", "shaskey", "smembers"} {
			ops = append(ops, Op{K: n, B: "b", Key: S(k)})
		}
		for _, k2 := range keys {
			for _, n := range []string{"sdiff1", "sunion1", "sinter"} {
				ops = append(ops, Op{K: n, B: "b", Key: S(k), Key2: S(k2)})
			}
		}
	}
	nstates := 0
	for _, s0 := range kstates {
		for _, s1 := range kstates {
			nstates++
			var initOps []Op
			for i, ks := range []kstate{s0, s1} {
				if !ks.present {
					continue
				}
				// create the key (possibly empty: add then remove a marker)
				initOps = append(initOps, Op{K: "sadd", B: "b", Key: S(keys[i]), Vs: []S{"zz"}})
				for j, v := range mems {
					if ks.mask&(1<<j) != 0 {
						initOps = append(initOps, Op{K: "sadd", B: "b", Key: S(keys[i]), Vs: []S{S(v)}})
					}
				}
				initOps = append(initOps, Op{K: "srem", B: "b", Key: S(keys[i]), Vs: []S{"zz"}})
			}
			for _, op := range ops {
				c := Case{Prop: "C06e2", Steps: []Step{{K: "state", Ops: initOps}, {K: "op", Ops: []Op{op}}}}
				nontrivial := (s0.present || s1.present) && (op.V == "" || len(op.Vs) > 0 && op.Vs[0] == "" || strings.HasPrefix(op.K, "smove") || op.K == "spop")
				if err := runC06E2(c, st); err != nil {
					writeFail("C06", c.JSON(), err.Error())
					t.Fatalf("C06 (E2) violated: %v\ncase: %s", err, c.JSON())
				}
				st.Eval(c.JSON(), nontrivial, "e2")
			}
		}
	}
	st.Extra["e2_states"] = nstates
	st.Extra["e2_ops_per_state"] = len(ops)
}
