package props

import (
	"fmt"
	"math/rand"
	"sort"
	"strings"
	"testing"

	"github.com/xujiajun/nutsdb/ds/zset"
	"pgregory.net/rapid"
)

// C07 — sorted sets order members by (score, key).

var zKeys = []string{"", "a", "b", "c", "d", "\xff"}
// integers with ties, and scores that need more than six decimals (1/3, 1e-7, two scores 3e-7 apart): the score
// travels through the record key as text
var zScores = []float64{-2, -1, 0, 1, 1, 2, 2.5, 1.0 / 3, 1e-7, -1e-7, 0.3333331, 0.3333334, 1234567.1234567}
var zBounds = []float64{-3, -2, -1, 0, 0.5, 1, 2, 2.5, 3}

func genZOp(buckets []string) func(t *rapid.T) Op {
	return func(t *rapid.T) Op {
		b := S(rapid.SampledFrom(buckets).Draw(t, "b"))
		key := func() S { return S(rapid.SampledFrom(zKeys).Draw(t, "zk")) }
		rk := func(l string) int { return rapid.IntRange(-7, 7).Draw(t, l) }
		switch rapid.IntRange(0, 23).Draw(t, "zkind") {
		case 0, 1, 2, 3, 4, 5, 6:
			return Op{K: "zadd", B: b, Key: key(), F: rapid.SampledFrom(zScores).Draw(t, "score"), V: S(rapid.SampledFrom([]string{"", "v", "w|x"}).Draw(t, "v"))}
		case 7, 8:
			return Op{K: "zrem", B: b, Key: key()}
		case 9:
			return Op{K: "zpopmax", B: b}
		case 10:
			return Op{K: "zpopmin", B: b}
		case 11:
			// in-domain rank removal is resolved at generation time only approximately; out-of-domain is tolerated by the model
			return Op{K: "zremrangebyrank", B: b, I: rapid.IntRange(-3, 3).Draw(t, "i"), J: rapid.IntRange(-3, 3).Draw(t, "j")}
		case 12, 13, 14, 15:
			op := Op{K: "zrangebyscore", B: b, F: rapid.SampledFrom(zBounds).Draw(t, "f"), F2: rapid.SampledFrom(zBounds).Draw(t, "f2")}
			if rapid.IntRange(0, 4).Draw(t, "nilo") == 0 {
				op.NilO = true
			} else {
				op.Lim = rapid.IntRange(0, 3).Draw(t, "lim")
				op.ExS = rapid.Bool().Draw(t, "exs")
				op.ExE = rapid.Bool().Draw(t, "exe")
			}
			if rapid.IntRange(0, 3).Draw(t, "cnt") == 0 {
				op.K = "zcount"
			}
			return op
		case 16, 17, 18:
			return Op{K: "zrangebyrank", B: b, I: rk("i"), J: rk("j")}
		case 19, 20:
			return Op{K: rapid.SampledFrom([]string{"zrank", "zrevrank", "zscore", "zgetbykey"}).Draw(t, "rk"), B: b, Key: key()}
		default:
			return Op{K: rapid.SampledFrom([]string{"zcard", "zmembers", "zpeekmin", "zpeekmax"}).Draw(t, "rk"), B: b}
		}
	}
}

func genC07() *rapid.Generator[Case] {
	return rapid.Custom(func(t *rapid.T) Case {
		buckets := []string{"zb"}
		if rapid.Bool().Draw(t, "twob") {
			buckets = append(buckets, "")
		}
		return genStructHistory(50, 8, genZOp(buckets)).Draw(t, "hist")
	})
}

func classifyC07(c Case, sr *structRun) (bool, []string) {
	var classes []string
	nt := false
	scores := map[string]map[float64]int{}
	for _, s := range c.Steps {
		for _, op := range s.Ops {
			if op.K == "zadd" {
				if scores[string(op.B)] == nil {
					scores[string(op.B)] = map[float64]int{}
				}
				scores[string(op.B)][op.F]++
				if scores[string(op.B)][op.F] >= 2 {
					nt = true
					classes = append(classes, "score-ties")
				}
				if op.Key == "" {
					nt = true
					classes = append(classes, "empty-member-key")
				}
			}
			if op.K == "zrangebyscore" && op.F > op.F2 {
				classes = append(classes, "reversed-range")
				if op.F < -2 {
					nt = true
					classes = append(classes, "reversed-below-all")
				}
			}
		}
	}
	if sr.reopens > 0 {
		classes = append(classes, "reopen")
	}
	return nt, dedupe(classes)
}

func runC07(c Case, st *Stats) error { return runStructCase(c, st, classifyC07) }

func init() {
	register("C07", runC07)
	register("C07e2", runC07E2)
}

func TestC07(t *testing.T) { runProperty(t, "C07", genC07(), runC07) }

// ---- E2 on ds/zset ----

func execZDS(z *zset.SortedSet, op Op) (res Res) {
	defer func() {
		if r := recover(); r != nil {
			res = Res{Panic: fmt.Sprintf("%s: %v", op.K, r)}
		}
	}()
	k := string(op.Key)
	switch op.K {
	case "zadd":
		return errRes(z.Put(k, zset.SCORE(op.F), bs(op.V)))
	case "zrem":
		z.Remove(k)
		return rOK()
	case "zpopmax":
		return nodeRes(z.PopMax(), nil)
	case "zpopmin":
		return nodeRes(z.PopMin(), nil)
	case "zpeekmax":
		return nodeRes(z.PeekMax(), nil)
	case "zpeekmin":
		return nodeRes(z.PeekMin(), nil)
	case "zrangebyscore", "zcount":
		var opts *zset.GetByScoreRangeOptions
		if !op.NilO {
			opts = &zset.GetByScoreRangeOptions{Limit: op.Lim, ExcludeStart: op.ExS, ExcludeEnd: op.ExE}
		}
		ns := z.GetByScoreRange(zset.SCORE(op.F), zset.SCORE(op.F2), opts)
		if op.K == "zcount" {
			return rN(len(ns))
		}
		return nodesRes(ns, nil)
	case "zrangebyrank":
		return nodesRes(z.GetByRankRange(op.I, op.J, false), nil)
	case "zremrangebyrank":
		z.GetByRankRange(op.I, op.J, true)
		return rOK()
	case "zrank":
		return rN(z.FindRank(k))
	case "zrevrank":
		return rN(z.FindRevRank(k))
	case "zgetbykey":
		return nodeRes(z.GetByKey(k), nil)
	case "zcard":
		return rN(z.Size())
	}
	panic("execZDS: " + op.K)
}

// zContent reads the whole skiplist through several independent paths and
// checks they agree: Dict, forward rank walk, Size.
func zContent(z *zset.SortedSet) (string, error) {
	var fromDict []string
	type kn struct {
		k string
		s float64
	}
	var dk []kn
	for k, n := range z.Dict {
		if n.Key() != k {
			return "", fmt.Errorf("dict key %q holds node %q", k, n.Key())
		}
		dk = append(dk, kn{k, float64(n.Score())})
	}
	sort.Slice(dk, func(i, j int) bool {
		if dk[i].s != dk[j].s {
			return dk[i].s < dk[j].s
		}
		return dk[i].k < dk[j].k
	})
	for _, x := range dk {
		n := z.Dict[x.k]
		fromDict = append(fromDict, nodeStr(n))
	}
	var walk []string
	for _, n := range z.GetByRankRange(1, -1, false) {
		walk = append(walk, nodeStr(n))
	}
	a, b := strings.Join(fromDict, " "), strings.Join(walk, " ")
	if z.Size() == 0 {
		b = "" // rank walk of an empty set is unspecified (sanitized to rank 1)
		if len(fromDict) != 0 {
			return "", fmt.Errorf("size 0 but dict has %v", fromDict)
		}
	}
	if a != b {
		return "", fmt.Errorf("dict order [%s] differs from rank walk [%s]", a, b)
	}
	if z.Size() != len(fromDict) {
		return "", fmt.Errorf("Size()=%d but %d members", z.Size(), len(fromDict))
	}
	// every member is reachable by its rank, and ranks are 1..n in order
	for i, x := range dk {
		if r := z.FindRank(x.k); r != i+1 {
			return "", fmt.Errorf("FindRank(%q)=%d, want %d in [%s]", x.k, r, i+1, a)
		}
		if n := z.GetByRank(i+1, false); n == nil || n.Key() != x.k {
			return "", fmt.Errorf("GetByRank(%d) wrong in [%s]", i+1, a)
		}
	}
	return a, nil
}

func runC07E2(c Case, st *Stats) error {
	rand.Seed(c.Seed)
	z := zset.New()
	m := NewModel()
	m.DS = true
	for _, init := range c.Steps[0].Ops {
		execZDS(z, init)
		for _, o := range m.Outcomes(init) {
			if o.Do != nil {
				o.Do(m)
			}
		}
	}
	op := c.Steps[1].Ops[0]
	b := string(op.B)
	before := strings.Join(zStrs(m.zSorted(b)), " ")
	r := execZDS(z, op)
	got, cerr := zContent(z)
	if cerr != nil {
		return fmt.Errorf("ds/zset %s on [%s] (seed %d) left an inconsistent structure: %v", op, before, c.Seed, cerr)
	}
	outs := m.Outcomes(op)
	var want []string
	for _, o := range outs {
		mm := m.Clone()
		if o.Do != nil {
			o.Do(mm)
		}
		w := strings.Join(zStrs(mm.zSorted(b)), " ")
		if o.Pred != nil {
			want = append(want, "<valid-subset> -> "+w)
		} else {
			want = append(want, fmt.Sprintf("%s -> [%s]", o.R, w))
		}
		if o.matches(r) && (w == got || o.Note == "unspecified") {
			return nil
		}
	}
	return fmt.Errorf("ds/zset %s on [%s] (seed %d) returned %s leaving [%s]; model allows %v", op, before, c.Seed, r, got, want)
}

func TestC07Enum(t *testing.T) {
	st := NewStats("C07")
	defer st.Flush()
	st.Exhaustive = true
	keys := []string{"", "a", "b", "c"}
	scores := []float64{-1, 0, 1, 2}
	bounds := []float64{-2, -1, 0, 1, 2, 3}
	layouts := envInt("VERIF_CASES", 4)
	// ops
	var ops []Op
	for _, k := range keys {
		for _, s := range scores {
			ops = append(ops, Op{K: "zadd", B: "z", Key: S(k), F: s, V: "n"})
		}
		for _, n := range []string{"zrem", "zrank", "zrevrank", "zgetbykey"} {
			ops = append(ops, Op{K: n, B: "z", Key: S(k)})
		}
	}
	for _, n := range []string{"zpopmax", "zpopmin", "zpeekmax", "zpeekmin", "zcard"} {
		ops = append(ops, Op{K: n, B: "z"})
	}
	for _, f := range bounds {
		for _, f2 := range bounds {
			ops = append(ops, Op{K: "zrangebyscore", B: "z", F: f, F2: f2, NilO: true})
			for _, lim := range []int{0, 1, 2} {
				for ex := 0; ex < 4; ex++ {
					ops = append(ops, Op{K: "zrangebyscore", B: "z", F: f, F2: f2, Lim: lim, ExS: ex&1 != 0, ExE: ex&2 != 0})
				}
			}
			ops = append(ops, Op{K: "zcount", B: "z", F: f, F2: f2, ExS: true})
		}
	}
	for i := -6; i <= 6; i++ {
		for j := -6; j <= 6; j++ {
			ops = append(ops, Op{K: "zrangebyrank", B: "z", I: i, J: j}, Op{K: "zremrangebyrank", B: "z", I: i, J: j})
		}
	}
	// states: each key absent or with one of the scores
	nstates := 0
	total := 1
	for range keys {
		total *= len(scores) + 1
	}
	for code := 0; code < total; code++ {
		nstates++
		var members []Op
		x := code
		for _, k := range keys {
			d := x % (len(scores) + 1)
			x /= len(scores) + 1
			if d > 0 {
				members = append(members, Op{K: "zadd", B: "z", Key: S(k), F: scores[d-1], V: S("v" + k)})
			}
		}
		for lay := 0; lay < layouts; lay++ {
			seed := int64(code*131 + (lay+envInt("VERIF_SHARD", 0)*layouts)*7919 + 1)
			// insertion order varies with the layout index
			initOps := append([]Op(nil), members...)
			if lay%2 == 1 {
				for i, j := 0, len(initOps)-1; i < j; i, j = i+1, j-1 {
					initOps[i], initOps[j] = initOps[j], initOps[i]
				}
			}
			if lay%4 >= 2 && len(initOps) > 0 {
				// a re-scored member: insert with another score first
				first := initOps[0]
				first.F = 5
				initOps = append([]Op{first}, initOps...)
			}
			for _, op := range ops {
				c := Case{Prop: "C07e2", Seed: seed, Steps: []Step{{K: "state", Ops: initOps}, {K: "op", Ops: []Op{op}}}}
				if err := runC07E2(c, st); err != nil {
					writeFail("C07", c.JSON(), err.Error())
					t.Fatalf("C07 (E2) violated: %v\ncase: %s", err, c.JSON())
				}
				nontrivial := len(members) >= 2 && (zHasTie(members) || members[0].Key == "")
				st.evalFast(c, nontrivial)
			}
		}
	}
	st.Extra["e2_states"] = nstates
	st.Extra["e2_ops_per_state"] = len(ops)
	st.Extra["e2_layouts_per_state"] = layouts
}

func zHasTie(ms []Op) bool {
	seen := map[float64]bool{}
	for _, m := range ms {
		if seen[m.F] {
			return true
		}
		seen[m.F] = true
	}
	return false
}
