package props

import (
	"fmt"
	"math/rand"
	"os"
	"testing"

	"pgregory.net/rapid"
)

// C22 — opening with an incompatible index mode is refused (and leaves the
// directory unchanged); switching between the two RAM modes on KV data works.

func genC22() *rapid.Generator[Case] {
	return rapid.Custom(func(t *rapid.T) Case {
		creator := rapid.IntRange(0, 2).Draw(t, "creator")
		p := mixedParams{Modes: []int{creator}, Segs: []int64{120, 200, 1024}, Buckets: []string{"b", "c"},
			MinB: 1, MaxB: 2, MaxSteps: 10, MaxOps: 3, ReopenPct: 10, Structs: false, Fill: true}
		c := genMixedCase(p).Draw(t, "hist")
		kind := rapid.SampledFrom([]string{"empty", "fresh", "written", "written", "merged", "crashed"}).Draw(t, "dirstate")
		if kind == "merged" && creator == 2 {
			kind = "written"
		}
		c.Extra = map[string]interface{}{"state": kind, "crashpos": rapid.IntRange(0, 1000).Draw(t, "crashpos")}
		return c
	})
}

func runC22(c Case, st *Stats) error {
	rand.Seed(c.Seed)
	kind, _ := c.Extra["state"].(string)
	crashPos := 0
	switch v := c.Extra["crashpos"].(type) {
	case float64:
		crashPos = int(v)
	case int:
		crashPos = v
	}
	creator := c.Cfg.Mode
	base := newDir("c22")
	defer os.RemoveAll(base)
	var u *Universe
	var srcObs *Observation
	kvObs := ObsOpts{KV: true, KVScans: true}
	hasData := false
	segments := 0
	// --- produce the directory
	switch kind {
	case "empty":
		// nothing: the directory exists but was never opened
	case "fresh":
		h, err := OpenDB(base, c.Cfg)
		if err != nil {
			return fmt.Errorf("open failed: %v", err)
		}
		h.Close()
	default:
		cc := c
		if kind == "merged" {
			cc.Steps = append(append([]Step(nil), c.Steps...), Step{K: "merge"})
		}
		rc, h, rec, err := record(cc, nil)
		if rec != nil {
			defer rec.Stop()
		}
		if rc != nil {
			defer os.RemoveAll(rc.Dir)
		}
		if err != nil {
			if h != nil {
				h.Close()
			}
			return err
		}
		if rc.Skipped != "" {
			h.Close()
			st.Eval(c.JSON(), false, "skipped-panic")
			return nil
		}
		u = rc.U
		srcObs = Observe(h, u, kvObs)
		h.Close()
		rc.Evs = rec.Evs
		rec.Stop()
		fs := newMemFS()
		n := len(rc.Evs)
		if kind == "crashed" && n > 0 {
			n = crashPos % (n + 1)
			srcObs = nil // the crashed state is whatever recovery yields
		}
		for _, e := range rc.Evs[:n] {
			fs.apply(e, -1)
		}
		if err := fs.materialize(base); err != nil {
			panic(err)
		}
		for name, b := range fs.files {
			if len(name) > 4 && name[len(name)-4:] == ".dat" {
				segments++
				for _, x := range b {
					if x != 0 {
						hasData = true
						break
					}
				}
			}
		}
	}
	if u == nil {
		u = UniverseOf(c)
	}
	before, err := readTree(base)
	if err != nil {
		panic(err)
	}
	// --- try every reopen mode on a copy of the directory
	for mode := 0; mode < 3; mode++ {
		dir := newDir("c22o")
		copyTree(before, dir)
		cfg := c.Cfg
		cfg.Mode = mode
		h, err := OpenDB(dir, cfg)
		incompatible := (creator == 2) != (mode == 2)
		what := fmt.Sprintf("directory %s by mode %d reopened with mode %d", kind, creator, mode)
		if err != nil {
			after, _ := readTree(dir)
			if d := diffTrees(before, after); d != "" {
				os.RemoveAll(dir)
				return fmt.Errorf("%s: Open failed (%v) but changed the directory: %s", what, err, d)
			}
			if !incompatible && kind != "crashed" {
				os.RemoveAll(dir)
				return fmt.Errorf("%s: Open of a compatible mode failed: %v", what, err)
			}
			if !incompatible && kind == "crashed" && creator != 2 {
				os.RemoveAll(dir)
				return fmt.Errorf("%s: Open of a compatible mode failed on a crash image: %v", what, err)
			}
			os.RemoveAll(dir)
			continue
		}
		// Open succeeded
		if incompatible && hasData {
			h.Close()
			os.RemoveAll(dir)
			return fmt.Errorf("%s: Open succeeded although the directory holds data written in an incompatible index mode", what)
		}
		o := Observe(h, u, kvObs)
		h.Close()
		os.RemoveAll(dir)
		if o.Panic != "" {
			return fmt.Errorf("%s: reads panicked: %s", what, o.Panic)
		}
		if !hasData {
			for _, l := range o.Lines {
				if l[len(l)-4:] != "NONE" {
					return fmt.Errorf("%s: a directory without data shows contents: %s", what, l)
				}
			}
		}
		if !incompatible && srcObs != nil && creator != 2 && mode != 2 {
			if d := DiffObs(srcObs, o); d != "" {
				return fmt.Errorf("%s: contents differ from what was written: %s", what, d)
			}
		}
	}
	classes := []string{"state-" + kind, fmt.Sprintf("creator-mode%d", creator)}
	st.Sub(3)
	st.Eval(c.JSON(), segments >= 2 || kind == "crashed", classes...)
	return nil
}

func copyTree(t map[string][]byte, dir string) {
	for name, b := range t {
		p := dir + "/" + name
		if name[len(name)-1] == '/' {
			os.MkdirAll(p, 0o755)
			continue
		}
		os.MkdirAll(dirOf(p), 0o755)
		if err := os.WriteFile(p, b, 0o644); err != nil {
			panic(err)
		}
	}
}

func dirOf(p string) string {
	for i := len(p) - 1; i >= 0; i-- {
		if p[i] == '/' {
			return p[:i]
		}
	}
	return "."
}

func init() { register("C22", runC22) }

func TestC22(t *testing.T) { runProperty(t, "C22", genC22(), runC22) }
