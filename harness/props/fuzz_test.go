package props

import (
	"bytes"
	"encoding/binary"
	"fmt"
	"os"
	"path/filepath"
	"testing"

	"github.com/xujiajun/nutsdb"
	"pgregory.net/rapid"
)

// E5 — native Go fuzz targets (coverage-guided, all cores). Thorough tier runs them with
// -test.fuzz; the quick tier runs the committed corpus (/verif/corpus/<Target>/) and the
// f.Add seeds as plain tests.
//
//   FuzzEntryImage, FuzzRootIdxImage, FuzzBucketMetaImage (C21): the fuzz input IS the stored
//   image. Oracle (decoder side of C21): the reader returns an error, or "no record", or a
//   record that re-encodes to exactly the stored bytes (checksum included) - anything else is
//   bytes that were never written by the encoder being served as a record. For data entries
//   both RWManagers must agree.
//
//   FuzzAPIProgram (C20): the fuzz input is rapid's random bit stream (rapid.MakeFuzz), i.e.
//   the same generator of hostile API programs as TestC20, steered by coverage.
//
//   FuzzRecordFlips (C21): rapid.MakeFuzz over the record generator of TestC21.

// fuzzStats is flushed to $VERIF_OUT.w<pid> every few hundred executions (fuzz workers are killed
// without notice, so an at-exit flush would be lost; the driver merges all stats files).
var fuzzStats *Stats
var fuzzExecs int

// underNativeFuzz is set by the rapid-based fuzz targets: the Go fuzzing engine kills a worker whose
// execution takes longer than about a second and reports that as a failure, so the multi-GiB size-field
// flips of C21 (seconds per record) are left to TestC21.
var underNativeFuzz bool

func fuzzStat(prop string) *Stats {
	if fuzzStats == nil {
		fuzzStats = NewStats(prop)
	}
	return fuzzStats
}

func fuzzFlush() {
	fuzzExecs++
	if fuzzExecs%500 != 0 && fuzzExecs != 1 {
		return
	}
	out := os.Getenv("VERIF_OUT")
	if out == "" || fuzzStats == nil {
		return
	}
	old := out
	os.Setenv("VERIF_OUT", fmt.Sprintf("%s.w%d", old, os.Getpid()))
	fuzzStats.Flush()
	os.Setenv("VERIF_OUT", old)
}

const fuzzMaxField = 1 << 20 // declared field sizes above this are not read (the reader would allocate up to 3 x 4 GiB)

func fuzzImageSeeds(f *testing.F, kind string) {
	f.Add([]byte{})
	f.Add(make([]byte, 64))
	f.Add(bytes.Repeat([]byte{0xff}, 64))
	recs := []RecCase{
		{Kind: kind, Bucket: "b", Key: "k", Value: "v", TS: 1, TTL: 0, Flag: 1, Status: 2, DS: 2, TxID: 7, FID: 3, Off: 99},
		{Kind: kind, Bucket: "", Key: "", Value: "", TS: 0, TxID: 1},
		{Kind: kind, Bucket: "bb|", Key: "a|b", Value: S(bytes.Repeat([]byte{0x80}, 40)), TS: 1 << 62, TTL: 1 << 31, Flag: 0, Status: 1, DS: 4, TxID: 1<<64 - 1, FID: 1 << 40, Off: 1},
	}
	for _, r := range recs {
		img, _ := r.image()
		f.Add(img)
		f.Add(append(append([]byte(nil), img...), img...))
		f.Add(append(append([]byte(nil), img...), make([]byte, 50)...))
		if len(img) > 8 {
			f.Add(img[:len(img)-1])
			m := append([]byte(nil), img...)
			m[len(m)-1] ^= 1
			f.Add(m)
		}
	}
}

func u32At(b []byte, off int) uint32 {
	if len(b) < off+4 {
		return 0
	}
	return binary.LittleEndian.Uint32(b[off : off+4])
}

func FuzzEntryImage(f *testing.F) {
	fuzzImageSeeds(f, "entry")
	f.Fuzz(func(t *testing.T, data []byte) {
		st := fuzzStat("C21")
		defer fuzzFlush()
		if len(data) == 0 {
			return
		}
		if u32At(data, 12) > fuzzMaxField || u32At(data, 16) > fuzzMaxField || u32At(data, 26) > fuzzMaxField {
			st.Class("skipped-huge-declared-size", 1)
			return
		}
		dir := newDir("fz")
		defer os.RemoveAll(dir)
		type res struct {
			class string
			enc   []byte
		}
		var rs [2]res
		for rw := 0; rw < 2; rw++ {
			path := filepath.Join(dir, fmt.Sprintf("%d.dat", rw))
			if err := os.WriteFile(path, data, 0o644); err != nil {
				t.Skip()
			}
			func() {
				defer func() {
					if p := recover(); p != nil {
						t.Fatalf("C21/C20: DataFile.ReadAt panicked on a %d-byte image (rw=%d): %v", len(data), rw, p)
					}
				}()
				df, err := nutsdb.NewDataFile(path, int64(len(data)), nutsdb.RWMode(rw))
				if err != nil {
					rs[rw] = res{class: "open-error"}
					return
				}
				defer df.Close()
				e, err := df.ReadAt(0)
				switch {
				case err != nil:
					rs[rw] = res{class: "error"}
				case e == nil:
					rs[rw] = res{class: "absent"}
				default:
					rs[rw] = res{class: "record", enc: e.Encode()}
				}
			}()
			if rs[rw].class == "record" {
				enc := rs[rw].enc
				if len(enc) > len(data) || !bytes.Equal(enc, data[:len(enc)]) {
					t.Fatalf("C21: reader (rw=%d) served a record that does not re-encode to the stored bytes: stored %x, served record encodes to %x", rw, data[:min(len(data), 96)], enc[:min(len(enc), 96)])
				}
			}
		}
		if rs[0].class != rs[1].class && rs[0].class != "open-error" && rs[1].class != "open-error" {
			t.Fatalf("C21/C19: FileIO reads %q, MMap reads %q for the same %d-byte image %x", rs[0].class, rs[1].class, len(data), data[:min(len(data), 96)])
		}
		st.evalFast(Case{}, false, "entry-"+rs[0].class)
		if rs[0].class == "record" {
			st.NonTrivKey(string(data))
		}
	})
}

func FuzzRootIdxImage(f *testing.F) {
	fuzzImageSeeds(f, "rootidx")
	f.Fuzz(func(t *testing.T, data []byte) {
		st := fuzzStat("C21")
		defer fuzzFlush()
		if u32At(data, 20) > fuzzMaxField || u32At(data, 24) > fuzzMaxField {
			st.Class("skipped-huge-declared-size", 1)
			return
		}
		dir := newDir("fz")
		defer os.RemoveAll(dir)
		path := filepath.Join(dir, "0.bptridx")
		if err := os.WriteFile(path, data, 0o644); err != nil {
			t.Skip()
		}
		fd, err := os.Open(path)
		if err != nil {
			t.Skip()
		}
		defer fd.Close()
		class := ""
		func() {
			defer func() {
				if p := recover(); p != nil {
					t.Fatalf("C21: ReadBPTreeRootIdxAt panicked on a %d-byte image: %v", len(data), p)
				}
			}()
			b, err := nutsdb.ReadBPTreeRootIdxAt(fd, 0)
			switch {
			case err != nil:
				class = "error"
			case b == nil:
				class = "absent"
			default:
				class = "record"
				enc := b.Encode()
				if len(enc) > len(data) || !bytes.Equal(enc, data[:len(enc)]) {
					t.Fatalf("C21: ReadBPTreeRootIdxAt served a record that does not re-encode to the stored bytes: stored %x, served %x", data[:min(len(data), 96)], enc[:min(len(enc), 96)])
				}
			}
		}()
		st.evalFast(Case{}, false, "rootidx-"+class)
		if class == "record" {
			st.NonTrivKey(string(data))
		}
	})
}

func FuzzBucketMetaImage(f *testing.F) {
	fuzzImageSeeds(f, "bucketmeta")
	f.Fuzz(func(t *testing.T, data []byte) {
		st := fuzzStat("C21")
		defer fuzzFlush()
		if u32At(data, 4) > fuzzMaxField || u32At(data, 8) > fuzzMaxField {
			st.Class("skipped-huge-declared-size", 1)
			return
		}
		dir := newDir("fz")
		defer os.RemoveAll(dir)
		path := filepath.Join(dir, "b.meta")
		if err := os.WriteFile(path, data, 0o644); err != nil {
			t.Skip()
		}
		class := ""
		func() {
			defer func() {
				if p := recover(); p != nil {
					t.Fatalf("C21: ReadBucketMeta panicked on a %d-byte image: %v", len(data), p)
				}
			}()
			bm, err := nutsdb.ReadBucketMeta(path)
			switch {
			case err != nil:
				class = "error"
			case bm == nil:
				class = "absent"
			default:
				class = "record"
				enc := bm.Encode()
				if len(enc) > len(data) || !bytes.Equal(enc, data[:len(enc)]) {
					t.Fatalf("C21: ReadBucketMeta served a record that does not re-encode to the stored bytes: stored %x, served %x", data[:min(len(data), 96)], enc[:min(len(enc), 96)])
				}
			}
		}()
		st.evalFast(Case{}, false, "bucketmeta-"+class)
		if class == "record" {
			st.NonTrivKey(string(data))
		}
	})
}

// fuzzProperty adapts a rapid property (generator + runner) to the native fuzzer.
func fuzzProperty(f *testing.F, prop string, gen *rapid.Generator[Case], run RunFunc) {
	// rapid consumes the input as its random bit stream (8 bytes per draw) and skips inputs that run out,
	// so the seeds are long fixed pseudo-random streams (a constant LCG, not a run-time RNG)
	for s := uint64(1); s <= 6; s++ {
		b := make([]byte, 16384)
		x := s * 0x9E3779B97F4A7C15
		for i := range b {
			x = x*6364136223846793005 + 1442695040888963407
			b[i] = byte(x >> 56)
		}
		f.Add(b)
	}
	f.Fuzz(rapid.MakeFuzz(func(rt *rapid.T) {
		underNativeFuzz = true
		st := fuzzStat(prop)
		defer fuzzFlush()
		c := gen.Draw(rt, "case")
		c.Prop = prop
		if err := safeRun(run, c, st); err != nil {
			writeFail(prop, c.JSON(), err.Error())
			rt.Fatalf("%s violated: %v\ncase: %s", prop, err, c.JSON())
		}
	}))
}

func FuzzAPIProgram(f *testing.F)  { fuzzProperty(f, "C20", genC20Case(), runC20) }
func FuzzRecordFlips(f *testing.F) { fuzzProperty(f, "C21", genRecCase(), runC21) }
