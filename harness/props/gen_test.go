package props

import (
	"sort"
	"strings"

	"github.com/xujiajun/nutsdb"
	"pgregory.net/rapid"
)

var keyAlphabet = []byte{0x00, 'a', 'b', '|', 0xff}
var keyAlphabetNoSep = []byte{0x00, 'a', 'b', 'c', 0xff}

func genKeyFrom(alpha []byte, minLen, maxLen int) *rapid.Generator[string] {
	return rapid.Custom(func(t *rapid.T) string {
		n := rapid.IntRange(minLen, maxLen).Draw(t, "klen")
		b := make([]byte, n)
		for i := range b {
			b[i] = rapid.SampledFrom(alpha).Draw(t, "kb")
		}
		return string(b)
	})
}

// genKeys draws a small universe of distinct keys.
func genKeys(alpha []byte, minN, maxN, maxLen int) *rapid.Generator[[]string] {
	return rapid.Custom(func(t *rapid.T) []string {
		n := rapid.IntRange(minN, maxN).Draw(t, "nkeys")
		seen := map[string]bool{}
		var out []string
		for len(out) < n {
			k := genKeyFrom(alpha, 1, maxLen).Draw(t, "key")
			if !seen[k] {
				seen[k] = true
				out = append(out, k)
			}
			if len(seen) > 200 {
				break
			}
		}
		return out
	})
}

// keyShape is a drawn key universe. Most cases use a handful of keys (overwrites, deletes of live keys and
// shared prefixes are the norm); "wide" and "bulk" universes make the B+ trees of a bucket span several
// leaves (order 8: more than 7 keys) and several levels, so that scans cross leaf boundaries and range
// bounds fall into the gaps between leaves.
type keyShape struct {
	Keys   []string
	MaxOps int    // upper bound for the number of calls of a write transaction
	Kind   string // small, wide, bulk
}

func genKeyShape(t *rapid.T, alpha []byte, minN, maxN, maxLen, maxOps int, allowBulk bool) keyShape {
	// rapid biases integer draws towards the bounds, hence interior values for the rarer classes
	switch r := rapid.IntRange(0, 19).Draw(t, "keyshape"); {
	case r == 9 && allowBulk:
		return keyShape{Keys: genKeys(alpha, 40, 90, 3).Draw(t, "keys"), MaxOps: 20, Kind: "bulk"}
	case r == 3 || r == 7 || r == 11 || r == 13 || r == 17:
		ml := maxLen
		if ml < 3 {
			ml = 3
		}
		mo := 8
		if maxOps <= 1 {
			mo = maxOps // the caller wants one call per transaction
		}
		return keyShape{Keys: genKeys(alpha, 8, 30, ml).Draw(t, "keys"), MaxOps: mo, Kind: "wide"}
	}
	return keyShape{Keys: genKeys(alpha, minN, maxN, maxLen).Draw(t, "keys"), MaxOps: maxOps, Kind: "small"}
}

var fixedValues = []string{"", "|", "a|b", "\x80", "v", "vv", "a", "b|c", "\x00", "0", "1|a",
	"\x00\x00\x00\x00\x00\x00\x00\x00a\x00\x00\x00\x00b", "z\x00\x00\x00\x00\x00\x01\x02\x03"}

func genValue() *rapid.Generator[string] {
	return rapid.OneOf(
		rapid.SampledFrom(fixedValues),
		rapid.Custom(func(t *rapid.T) string {
			if rapid.IntRange(0, 3).Draw(t, "binary") == 2 {
				// binary payloads (runs of zero bytes followed by non-zero ones, like little-endian integers): whatever a
				// torn or failed write leaves behind a shorter record then looks like a record header to a careless scan
				n := rapid.IntRange(20, 60).Draw(t, "blen") // 42+bucket+key+60 stays below the smallest segment size (120)
				b := make([]byte, n)
				for i := range b {
					b[i] = rapid.SampledFrom([]byte{0, 0, 0, 0, 1, 0xff, 'a', 0x10}).Draw(t, "bb")
				}
				return string(b)
			}
			n := rapid.IntRange(0, 24).Draw(t, "vlen")
			b := make([]byte, n)
			for i := range b {
				b[i] = rapid.SampledFrom([]byte{'x', 'y', '|', 0x80, 0x00, 'a'}).Draw(t, "vb")
			}
			return string(b)
		}),
	)
}

var segSizes = []int64{120, 200, 333, 1024, 8192}

func genConfig(modes []int, segs []int64) *rapid.Generator[Config] {
	return rapid.Custom(func(t *rapid.T) Config {
		return Config{
			Mode: rapid.SampledFrom(modes).Draw(t, "mode"),
			RW:   rapid.IntRange(0, 1).Draw(t, "rw"),
			Load: rapid.IntRange(0, 1).Draw(t, "load"),
			Sync: rapid.Bool().Draw(t, "sync"),
			Seg:  rapid.SampledFrom(segs).Draw(t, "seg"),
		}
	})
}

var bucketNames = []string{"b", "bb", "c", "b|", ""}

func genBuckets(minN, maxN int) *rapid.Generator[[]string] {
	return rapid.Custom(func(t *rapid.T) []string {
		n := rapid.IntRange(minN, maxN).Draw(t, "nb")
		perm := rapid.Permutation(bucketNames).Draw(t, "bperm")
		return perm[:n]
	})
}

// TTL classes: all verdicts are stable until 2033.
type ttlClass struct {
	TTL uint32
	TS  uint64
}

var liveTTL = []ttlClass{{0, 0}, {0, 12345}, {4294967295, 0}, {1, 2000000000}, {1000000, 1999000000}}
var deadTTL = []ttlClass{{1, 0}, {100, 1000}, {1, 1000000000}, {4294967295 / 4, 10}}

// clockBase is where the virtual clock of a clocked case starts: far from every expiry instant of the TTL
// classes above and below the wall clock, so records stamped by Put never expire in such a case.
const clockBase = 1600000000

// clockGen is the generator-side state of a clocked case: the virtual time reached so far and the expiry
// instants of the records generated so far. A value lives inside one rapid.Custom call.
type clockGen struct {
	Now int64
	Exp []int64
}

// nearPut draws an explicitly stamped put whose expiry instant lies a few seconds around the virtual time.
func (g *clockGen) nearPut(t *rapid.T, b, k string) Op {
	e := rapid.SampledFrom([]int64{-2, -1, 0, 1, 1, 2, 2, 3, 5, 9}).Draw(t, "expin")
	d := rapid.SampledFrom([]int64{0, 1, 3, 60, 100000}).Draw(t, "age")
	if d+e < 1 {
		d = 1 - e // TTL 0 would mean "never expires"
	}
	g.Exp = append(g.Exp, g.Now+e)
	return Op{K: "putts", B: S(b), Key: S(k), V: S(genValue().Draw(t, "v")), TTL: uint32(d + e), TS: uint64(g.Now - d)}
}

// step draws the next clock step: the time only moves forward, preferably onto, just before or just after
// an expiry instant that still lies ahead.
func (g *clockGen) step(t *rapid.T) Step {
	var cands []int64
	for _, x := range g.Exp {
		for _, y := range []int64{x - 1, x, x + 1} {
			if y > g.Now {
				cands = append(cands, y)
			}
		}
	}
	cands = append(cands, g.Now+1, g.Now+2)
	g.Now = rapid.SampledFrom(cands).Draw(t, "clockto")
	return Step{K: "clock", T: g.Now}
}

// genKVWrite draws a put/putts/del op.
func genKVWrite(buckets, keys []string, allowFill bool) *rapid.Generator[Op] {
	return genKVWriteClocked(buckets, keys, allowFill, nil)
}

// genKVWriteClocked is genKVWrite for a case that may run under the virtual clock (clk != nil): half of its
// expiring puts then expire within seconds of the virtual time.
func genKVWriteClocked(buckets, keys []string, allowFill bool, clk *clockGen) *rapid.Generator[Op] {
	return rapid.Custom(func(t *rapid.T) Op {
		b := rapid.SampledFrom(buckets).Draw(t, "b")
		k := rapid.SampledFrom(keys).Draw(t, "k")
		wk := rapid.IntRange(0, 9).Draw(t, "wkind")
		if clk != nil && (wk == 2 || wk == 4 || wk == 5) {
			return clk.nearPut(t, b, k)
		}
		switch wk {
		case 0, 1:
			return Op{K: "del", B: S(b), Key: S(k)}
		case 2, 3:
			// expired put
			c := rapid.SampledFrom(deadTTL).Draw(t, "dead")
			return Op{K: "putts", B: S(b), Key: S(k), V: S(genValue().Draw(t, "v")), TTL: c.TTL, TS: c.TS}
		case 4:
			c := rapid.SampledFrom(liveTTL).Draw(t, "live")
			return Op{K: "putts", B: S(b), Key: S(k), V: S(genValue().Draw(t, "v")), TTL: c.TTL, TS: c.TS}
		case 5:
			ttl := rapid.SampledFrom([]uint32{0, 1000000, 4000000000}).Draw(t, "ttl")
			return Op{K: "put", B: S(b), Key: S(k), V: S(genValue().Draw(t, "v")), TTL: ttl}
		default:
			op := Op{K: "put", B: S(b), Key: S(k), V: S(genValue().Draw(t, "v"))}
			if allowFill && rapid.IntRange(0, 5).Draw(t, "fill") == 0 {
				op.Fill = true
			}
			return op
		}
	})
}

// boundsOf derives scan bounds that straddle the keys.
func boundsOf(keys []string) []string {
	seen := map[string]bool{}
	var out []string
	add := func(s string) {
		if !seen[s] {
			seen[s] = true
			out = append(out, s)
		}
	}
	add("")
	for _, k := range keys {
		add(k)
		add(k + "\x00")
		add(k[:len(k)-1])
		if k[len(k)-1] > 0 {
			add(k[:len(k)-1] + string([]byte{k[len(k)-1] - 1}) + "\xff")
		}
	}
	add("\xff\xff\xff\xff")
	return out
}

func prefixesOf(keys []string) []string {
	seen := map[string]bool{}
	var out []string
	for _, k := range keys {
		for i := 0; i <= len(k); i++ {
			if !seen[k[:i]] {
				seen[k[:i]] = true
				out = append(out, k[:i])
			}
		}
	}
	return out
}

var regexps = []string{".*", "^a", "b$", "^$", "[a-b]+", "\\|", "^.$"}

// resolveFills rewrites ops marked Fill so that the record ends exactly at the
// end of the active segment (only for the first op of a transaction).
func resolveFills(h *DBH, st Step) Step {
	has := false
	for _, o := range st.Ops {
		if o.Fill {
			has = true
		}
	}
	if !has {
		return st
	}
	ops := append([]Op(nil), st.Ops...)
	for i := range ops {
		if !ops[i].Fill {
			continue
		}
		if i != 0 || h == nil || h.DB == nil {
			ops[i].Fill = false
			continue
		}
		free := nutsdb.VerifActiveFree(h.DB)
		need := free - 42 - int64(len(ops[i].B)) - int64(len(ops[i].Key))
		if need < 0 || need > 9000 {
			ops[i].Fill = false
			continue
		}
		ops[i].V = S(strings.Repeat("f", int(need)))
	}
	st.Ops = ops
	return st
}

// genTreeShapeSteps builds the insertion history of a "tree-shape" case: every key of the universe is put once,
// in an order chosen to drive the bucket's order-8 B+ tree (7 keys per leaf, a split leaves 4) through its
// structural boundaries. "Jump and backfill": walking down the sorted universe (or up, or alternately from both
// ends) the next key inserted lies r+1 positions beyond the frontier - a new smallest (largest) key of the tree -
// and the r keys jumped over are inserted right after it, so they fall into the leaf at the frontier. r is drawn
// per jump with a preference for 3, the number that refills a freshly split leaf exactly: the next extreme key
// then arrives at a full leaf and splits it again.
func genTreeShapeSteps(t *rapid.T, bucket string, keys []string) []Step {
	keys = append([]string(nil), keys...)
	sort.Strings(keys)
	dir := rapid.SampledFrom([]string{"desc", "desc", "asc", "both"}).Draw(t, "tsdir")
	fillOrder := rapid.SampledFrom([]string{"near", "far", "mixed"}).Draw(t, "tsfillorder")
	lo, hi := 0, len(keys)-1 // keys[lo..hi] are not inserted yet
	var seq []string
	if rapid.Bool().Draw(t, "tsanchored") {
		// "anchored" variant: an anchor key and six keys well beyond it fill the first leaf; then new extreme keys
		// on the other side of the anchor alternate with r refills taken from the gap right next to the anchor, so
		// the leaf holding the anchor keeps filling up behind it while new extremes keep arriving in front of it.
		ord := keys
		if rapid.Bool().Draw(t, "tsmirror") {
			ord = make([]string, len(keys))
			for i, k := range keys {
				ord[len(keys)-1-i] = k
			}
		}
		g := rapid.IntRange(9, 12).Draw(t, "tsgap")
		a := len(ord)/4 + rapid.IntRange(0, len(ord)/4).Draw(t, "tsanchor")
		if a+g+6 >= len(ord) {
			a = len(ord) - g - 7 // room for the gap and the six keys beyond it
		}
		if a < 4 {
			a = 4
		}
		rhythm := rapid.SampledFrom([]int{3, 3, 3, 2, 4}).Draw(t, "tsrhythm")
		used := make([]bool, len(ord))
		put := func(i int) {
			if i >= 0 && i < len(ord) && !used[i] {
				used[i] = true
				seq = append(seq, ord[i])
			}
		}
		put(a)
		for i := a + g + 1; i <= a+g+6; i++ {
			put(i)
		}
		// the refills walk through the gap away from the anchor or towards it (then every block of refills lands in
		// front of the previous one, in the same leaf as the anchor)
		gap, gstep := a+1, 1
		if rapid.IntRange(0, 2).Draw(t, "tstowards") != 0 {
			gap, gstep = a+g, -1
		}
		for front := a - 1; front >= 0; front-- {
			put(front)
			r := rhythm
			if rapid.IntRange(0, 5).Draw(t, "tsoffbeat") == 2 {
				r = rapid.IntRange(0, 5).Draw(t, "tsrefill")
			}
			for ; r > 0 && gap > a && gap <= a+g; r, gap = r-1, gap+gstep {
				put(gap)
			}
		}
		for i := range ord {
			put(i)
		}
		lo, hi = 1, 0
	}
	for n := 0; lo <= hi; n++ {
		r := rapid.SampledFrom([]int{0, 1, 2, 3, 3, 3, 3, 4, 6}).Draw(t, "tsjump")
		if r > hi-lo {
			r = hi - lo
		}
		down := dir == "desc" || (dir == "both" && n%2 == 0)
		var skipped []string
		if down {
			// new smallest key: keys[hi-r]; the skipped ones are keys[hi-r+1..hi], nearest to it first
			seq = append(seq, keys[hi-r])
			skipped = append(skipped, keys[hi-r+1:hi+1]...)
			hi -= r + 1
		} else {
			seq = append(seq, keys[lo+r])
			for i := lo + r - 1; i >= lo; i-- {
				skipped = append(skipped, keys[i])
			}
			lo += r + 1
		}
		switch fillOrder {
		case "far":
			for i, j := 0, len(skipped)-1; i < j; i, j = i+1, j-1 {
				skipped[i], skipped[j] = skipped[j], skipped[i]
			}
		case "mixed":
			if len(skipped) > 1 {
				skipped = rapid.Permutation(skipped).Draw(t, "tsperm")
			}
		}
		seq = append(seq, skipped...)
	}
	var steps []Step
	for i := 0; i < len(seq); {
		n := rapid.IntRange(1, 3).Draw(t, "tsnops")
		st := Step{K: "tx", Managed: true}
		for ; n > 0 && i < len(seq); n, i = n-1, i+1 {
			st.Ops = append(st.Ops, Op{K: "put", B: S(bucket), Key: S(seq[i]), V: S("v" + seq[i][:1])})
		}
		steps = append(steps, st)
	}
	return steps
}
