package props

import (
	"encoding/json"
	"fmt"
	"strings"

	"github.com/xujiajun/nutsdb"
)

// S is a byte string that survives JSON (bytes are mapped 1:1 to runes 0..255).
type S string

func (s S) MarshalJSON() ([]byte, error) {
	r := make([]rune, 0, len(s))
	for i := 0; i < len(s); i++ {
		r = append(r, rune(s[i]))
	}
	return json.Marshal(string(r))
}

func (s *S) UnmarshalJSON(b []byte) error {
	var str string
	if err := json.Unmarshal(b, &str); err != nil {
		return err
	}
	out := make([]byte, 0, len(str))
	for _, r := range str {
		if r > 255 {
			return fmt.Errorf("rune out of range in S: %q", r)
		}
		out = append(out, byte(r))
	}
	*s = S(out)
	return nil
}

// Config is the option set a case runs under.
type Config struct {
	Mode int   `json:"mode"` // 0 KeyVal, 1 KeyOnly, 2 Sparse
	RW   int   `json:"rw"`   // 0 FileIO, 1 MMap
	Load int   `json:"load"` // StartFileLoadingMode
	Sync bool  `json:"sync"`
	Seg  int64 `json:"seg"`
}

func (c Config) Options(dir string) nutsdb.Options {
	return nutsdb.Options{
		Dir:                  dir,
		EntryIdxMode:         nutsdb.EntryIdxMode(c.Mode),
		RWMode:               nutsdb.RWMode(c.RW),
		StartFileLoadingMode: nutsdb.RWMode(c.Load),
		SyncEnable:           c.Sync,
		SegmentSize:          c.Seg,
		NodeNum:              1,
	}
}

func (c Config) String() string {
	return fmt.Sprintf("mode=%d rw=%d load=%d sync=%v seg=%d", c.Mode, c.RW, c.Load, c.Sync, c.Seg)
}

// Op is one API call.
type Op struct {
	K    string  `json:"k"`             // API name, lower case
	B    S       `json:"b"`             // bucket
	B2   S       `json:"b2,omitempty"`  // second bucket
	Key  S       `json:"key,omitempty"` // key
	Key2 S       `json:"key2,omitempty"`
	V    S       `json:"v,omitempty"`
	Vs   []S     `json:"vs,omitempty"`
	TTL  uint32  `json:"ttl,omitempty"`
	TS   uint64  `json:"ts,omitempty"`
	I    int     `json:"i,omitempty"`
	J    int     `json:"j,omitempty"`
	F    float64 `json:"f,omitempty"`
	F2   float64 `json:"f2,omitempty"`
	Lim  int     `json:"lim,omitempty"`
	ExS  bool    `json:"exs,omitempty"`
	ExE  bool    `json:"exe,omitempty"`
	NilO bool    `json:"nilo,omitempty"` // pass nil options
	Re   string  `json:"re,omitempty"`
	Fill bool    `json:"fill,omitempty"` // value is resized to fill the active segment exactly
	Nil  bool    `json:"nil,omitempty"`  // empty byte-slice arguments are passed as nil
	// FNaN encodes non-finite floats for JSON: 1 NaN, 2 +Inf, 3 -Inf (applied to F), same *10 for F2.
	FNaN int `json:"fnan,omitempty"`
}

func (o Op) String() string {
	b, _ := json.Marshal(o)
	return string(b)
}

// Step is one step of a history.
type Step struct {
	K       string `json:"k"`                 // tx, view, reopen, merge, backup, crash, clock
	Ops     []Op   `json:"ops,omitempty"`     // for tx/view
	End     string `json:"end,omitempty"`     // commit (default), rollback, fnerr
	Managed bool   `json:"managed,omitempty"` // use db.Update/db.View
	FailAt  int    `json:"failat,omitempty"`  // for fnerr: number of ops executed before returning the error
	Fault   *Fault `json:"fault,omitempty"`
	After   []Op   `json:"after,omitempty"` // calls made on the transaction after it finished
	T       int64  `json:"t,omitempty"`     // for clock: the virtual time (Unix seconds) the expiry test sees from here on
}

// Fault describes an injected I/O fault inside the Commit of a step.
type Fault struct {
	Kind    string `json:"kind"`    // write, sync
	At      int    `json:"at"`      // index among the commit's mutation events of that kind
	Partial int    `json:"partial"` // bytes written before the error (write)
}

// Case is a complete generated case.
type Case struct {
	Prop  string                 `json:"prop"`
	Cfg   Config                 `json:"cfg"`
	Cfgs  []Config               `json:"cfgs,omitempty"`
	Steps []Step                 `json:"steps"`
	Seed  int64                  `json:"seed,omitempty"` // math/rand seed (skiplist levels)
	Extra map[string]interface{} `json:"extra,omitempty"`
	Conc  *ConcProg              `json:"conc,omitempty"`
}

func (c Case) JSON() string {
	b, _ := json.Marshal(c)
	return string(b)
}

func (c Case) Short() string {
	var sb strings.Builder
	fmt.Fprintf(&sb, "[%s]", c.Cfg)
	for _, s := range c.Steps {
		sb.WriteString(" " + s.K)
		if len(s.Ops) > 0 {
			sb.WriteString("(")
			for i, o := range s.Ops {
				if i > 0 {
					sb.WriteString(",")
				}
				sb.WriteString(o.K)
			}
			sb.WriteString(")")
		}
	}
	return sb.String()
}
