package props

import (
	"fmt"
	"os"
	"testing"
)

// C11 — with SyncEnable, committed transactions survive power loss.

func runC11(c Case, st *Stats) error {
	c.Cfg.Sync = true
	hasMerge := false
	for _, s := range c.Steps {
		if s.K == "merge" {
			hasMerge = true
		}
	}
	if hasMerge {
		c = dropListZsetForMergeCrash(c, st)
	}
	if c.Cfg.Mode == 2 && Known("sparse-index-files-not-crash-consistent") {
		st.Exclude("sparse-index-files-not-crash-consistent")
		c.Cfg.Mode = 1
	}
	rc, h, rec, err := record(c, nil)
	if rec != nil {
		defer rec.Stop()
	}
	if rc != nil {
		defer os.RemoveAll(rc.Dir)
	}
	if err != nil {
		if h != nil {
			h.Close()
		}
		return err
	}
	if rc.Skipped != "" {
		h.Close()
		st.Eval(c.JSON(), false, "skipped-panic")
		return nil
	}
	rec.Mark("close")
	if err := h.Close(); err != nil {
		return fmt.Errorf("close failed: %v", err)
	}
	rc.Evs = rec.Evs
	rec.Stop()
	if err := selfCheck(rc.Evs, rc.Dir); err != nil {
		panic(err)
	}
	ps, err := explorePowerLoss(c, rc, st)
	st.Sub(ps.Images)
	if err != nil {
		return err
	}
	classes := []string{fmt.Sprintf("mode%d-rw%d", c.Cfg.Mode, c.Cfg.RW)}
	if datFiles(rc.Dir) > 1 {
		classes = append(classes, "rotation")
	}
	if rc.Failed > 0 {
		classes = append(classes, "failed-transaction-in-workload")
	}
	if hasMerge {
		classes = append(classes, "workload-with-merge-call")
	}
	if rc.Faults > 0 {
		classes = append(classes, "commit-with-injected-write-error-in-workload")
	}
	if rc.MergeOK > 0 {
		classes = append(classes, "workload-with-successful-merge")
	}
	st.Class("positions", ps.Positions)
	st.Class("positions-with-volatile-operations", ps.WithVolatile)
	st.Eval(c.JSON(), ps.WithVolatile > 0 && ps.Images > 3, classes...)
	return nil
}

func init() { register("C11", runC11) }

func TestC11(t *testing.T) {
	p := wlParams{Modes: []int{0, 0, 1, 2}, Segs: []int64{120, 200, 333, 1024}, MaxSteps: 12, ReopenPct: 8, FailPct: 12, FaultPct: 8, MergePct: 12, Structs: true, SyncOnly: true}
	runProperty(t, "C11", genWorkload(p), runC11)
}
