package props

import (
	"fmt"
	"math/rand"
	"os"
	"sort"
	"strings"
	"testing"

	"pgregory.net/rapid"
)

// C13 — write transactions are serializable (values returned inside a committed
// write transaction and the state it leaves are explained by running its calls
// one after another on the state at its start).
//
// Known finding c13-snapshot-reads: in-transaction reads and pops observe the
// state at Begin; effects are applied in order at Commit. It is encoded as a
// named model deviation so that the search continues: a case explained by the
// strict model passes, a case explained only by the deviant model is the known
// finding (counted), a case explained by neither is a new violation.

func (m *Model) canon(u *Universe) string {
	var sb strings.Builder
	for b, mm := range m.KV {
		var ks []string
		for k, it := range mm {
			if it.live() {
				ks = append(ks, q(k)+"="+q(it.V))
			}
		}
		sort.Strings(ks)
		fmt.Fprintf(&sb, "kv %q %v;", b, ks)
	}
	for b, mm := range m.L {
		var ks []string
		for k, l := range mm {
			if len(l) > 0 {
				ks = append(ks, q(k)+"="+strings.Join(quoteAll(l), ","))
			}
		}
		sort.Strings(ks)
		fmt.Fprintf(&sb, "l %q %v;", b, ks)
	}
	for b := range m.Set {
		fmt.Fprintf(&sb, "s %q %s;", b, modelSetState(m, b))
	}
	for b := range m.Z {
		fmt.Fprintf(&sb, "z %q %v;", b, zStrs(m.zSorted(b)))
	}
	parts := strings.Split(sb.String(), ";")
	sort.Strings(parts)
	return strings.Join(parts, ";")
}

// readsAgree runs the battery against the implementation once and then checks it against a model.
func resultsMatch(m *Model, ops []Op, res []Res) error {
	for i, r := range res {
		if err := matchOutcome(m, ops[i], r); err != nil {
			return err
		}
	}
	return nil
}

func genC13() *rapid.Generator[Case] {
	return rapid.Custom(func(t *rapid.T) Case {
		c := Case{Cfg: genStructCfg().Draw(t, "cfg"), Seed: int64(rapid.IntRange(1, 1<<20).Draw(t, "rseed"))}
		buckets := []string{"b"}
		kvKeys := []string{"a", "ab"}
		sKeys := []string{"k"}
		if rapid.Bool().Draw(t, "morekeys") {
			sKeys = append(sKeys, "j")
			buckets = append(buckets, "c")
		}
		lop, sop, zop := genListOp(buckets, sKeys), genSetOp(buckets, sKeys), genZOp(buckets)
		kvop := func(t *rapid.T) Op {
			b := S(rapid.SampledFrom(buckets).Draw(t, "b"))
			k := S(rapid.SampledFrom(kvKeys).Draw(t, "k"))
			switch rapid.IntRange(0, 4).Draw(t, "kvk") {
			case 0:
				return Op{K: "get", B: b, Key: k}
			case 1:
				return Op{K: "del", B: b, Key: k}
			case 2:
				return Op{K: "getall", B: b}
			default:
				return Op{K: "put", B: b, Key: k, V: S(rapid.SampledFrom([]string{"1", "2", "3"}).Draw(t, "v"))}
			}
		}
		n := rapid.IntRange(1, 12).Draw(t, "nsteps")
		for i := 0; i < n; i++ {
			// each transaction works on one structure so that reads follow writes of the same structure often
			which := rapid.IntRange(0, 3).Draw(t, "which")
			g := []func(*rapid.T) Op{kvop, lop, sop, zop}[which]
			nops := rapid.IntRange(2, 6).Draw(t, "nops")
			st := Step{K: "tx", Managed: rapid.Bool().Draw(t, "managed")}
			for j := 0; j < nops; j++ {
				op := g(t)
				if op.K == "zremrangebyrank" {
					// ranks that are in the documented domain for every non-empty set
					// (the size may change inside the transaction)
					sgn := func(x int) int {
						if x < 0 {
							return -1
						}
						return 1
					}
					op.I, op.J = sgn(op.I), sgn(op.J)
				}
				st.Ops = append(st.Ops, op)
			}
			c.Steps = append(c.Steps, st)
		}
		return c
	})
}

func readsAfterWriteInTx(st Step) bool {
	touched := map[string]bool{}
	for _, op := range st.Ops {
		id := structOf(op.K) + "\x00" + string(op.B)
		if structOf(op.K) != "z" && op.K != "getall" {
			id += "\x00" + string(op.Key)
		}
		reads := !isWrite(op.K) || strings.Contains(op.K, "pop") || op.K == "lrem"
		if reads {
			for t := range touched {
				if t == id || strings.HasPrefix(t, id+"\x00") || strings.HasPrefix(id, t) {
					return true
				}
			}
		}
		if isWrite(op.K) {
			touched[id] = true
		}
	}
	return false
}

func runC13(c Case, st *Stats) error {
	rand.Seed(c.Seed)
	dir := newDir("c13")
	defer os.RemoveAll(dir)
	h, err := OpenDB(dir, c.Cfg)
	if err != nil {
		return fmt.Errorf("open failed: %v", err)
	}
	defer func() { h.Close() }()
	u := UniverseOf(c)
	battery := append(kvBattery(c, false), structBattery(u)...)
	m := NewModel()
	nontrivial := false
	deviated := 0
	for i, s := range c.Steps {
		if s.K != "tx" {
			continue
		}
		tr := h.RunTx(s, true, nil)
		if tr.Panic != "" || tr.BeginErr != nil {
			st.Eval(c.JSON(), false, "skipped-panic")
			return nil
		}
		for _, r := range tr.Res {
			if r.Panic != "" {
				st.Eval(c.JSON(), false, "skipped-panic")
				return nil
			}
		}
		if tr.CommitErr != nil {
			return fmt.Errorf("step %d: commit failed: %v", i, tr.CommitErr)
		}
		if readsAfterWriteInTx(s) {
			nontrivial = true
		}
		// what the database shows after the commit
		rt := h.RunTx(Step{K: "view", Ops: battery, Managed: true}, false, nil)
		if rt.Panic != "" {
			return fmt.Errorf("step %d: reads panicked: %s", i, rt.Panic)
		}
		// --- strict: sequential execution on the state at Begin
		strict := m.Clone()
		var strictErr error
		for j, r := range tr.Res {
			o, err := pickOutcome(strict, s.Ops[j], r)
			if err != nil {
				strictErr = fmt.Errorf("call %d: %v", j, err)
				break
			}
			if o.Do != nil {
				o.Do(strict)
			}
		}
		if strictErr == nil {
			strictErr = resultsMatch(strict, battery, rt.Res)
		}
		if strictErr == nil {
			m = strict
			continue
		}
		if !Known("c13-snapshot-reads") {
			return fmt.Errorf("step %d: not explained by sequential execution: %v", i, strictErr)
		}
		// --- deviant: return values from the Begin state, effects in order at Commit
		for j, r := range tr.Res {
			if _, err := pickOutcome(m, s.Ops[j], r); err != nil {
				return fmt.Errorf("step %d: call %d is explained neither by sequential execution (%v) nor by a read of the state at Begin: %v", i, j, strictErr, err)
			}
		}
		states := map[string]*Model{"": m.Clone()}
		for j, r := range tr.Res {
			op := s.Ops[j]
			if !isWrite(op.K) || r.Err {
				continue
			}
			if op.K == "spop" {
				if r.Kind == "items" && len(r.Items) == 1 {
					v, _ := unq(r.Items[0])
					op = Op{K: "srem", B: op.B, Key: op.Key, Vs: []S{S(v)}}
				} else {
					continue
				}
			}
			next := map[string]*Model{}
			for _, sm := range states {
				outs := sm.Outcomes(op)
				noop := false
				applied := 0
				for _, o := range outs {
					if o.Do == nil {
						noop = true
						continue
					}
					nm := sm.Clone()
					o.Do(nm)
					next[nm.canon(u)] = nm
					applied++
				}
				if noop || applied == 0 {
					next[sm.canon(u)] = sm
				}
			}
			states = next
			if len(states) > 256 {
				break
			}
		}
		var lastErr error
		var chosen *Model
		for _, sm := range states {
			if err := resultsMatch(sm, battery, rt.Res); err == nil {
				chosen = sm
				break
			} else {
				lastErr = err
			}
		}
		if chosen == nil {
			return fmt.Errorf("step %d: the state after Commit is explained neither by sequential execution (%v) nor by applying the logged calls in order at Commit (%d candidate states; e.g. %v)", i, strictErr, len(states), lastErr)
		}
		st.Deviate("c13-snapshot-reads")
		deviated++
		m = chosen
	}
	classes := []string{}
	if deviated > 0 {
		classes = append(classes, "explained-only-by-snapshot-reads")
	} else {
		classes = append(classes, "explained-by-sequential-execution")
	}
	st.Eval(c.JSON(), nontrivial, classes...)
	return nil
}

func unq(s string) (string, error) {
	var out string
	_, err := fmt.Sscanf(s, "%q", &out)
	return out, err
}

func init() { register("C13", runC13) }

func TestC13(t *testing.T) { runProperty(t, "C13", genC13(), runC13) }
