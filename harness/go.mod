module verifharness

go 1.23

toolchain go1.23.5

require (
	github.com/xujiajun/nutsdb v0.0.0
	pgregory.net/rapid v1.3.0
)

require (
	github.com/bwmarrin/snowflake v0.3.0 // indirect
	github.com/xujiajun/mmap-go v1.0.1 // indirect
	github.com/xujiajun/utils v0.0.0-20190123093513-8bf096c4f53b // indirect
	golang.org/x/sys v0.0.0-20181221143128-b4a75ba826a6 // indirect
)

replace github.com/xujiajun/nutsdb => /repo

replace golang.org/x/sys v0.0.0-20181221143128-b4a75ba826a6 => github.com/golang/sys v0.0.0-20181221143128-b4a75ba826a6
